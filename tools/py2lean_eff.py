#!/usr/bin/env python3
"""py2lean_eff: translate `explain_one` of IncrementalPFI and IncrementalSage from the Python source in $IXAI_REPO into
Lean 4 `do`-blocks over the effect monad `M K` of lean/IxaiVerif/Model/Effect.lean
(lean/IxaiVerif/Gen/IncrementalPFI.lean, Gen/IncrementalSage.lean).

The generated definitions read like the Python: every statement becomes one `do` statement in the same order, callbacks
become the oracle calls of the effect model (`callModel`, `callLoss`, `callStorage`, `imputeM`), reads of explainer state
become reads of the `World`, tracker updates become `M.modify`.  The bridge theorems (Props/GenBridge.lean) prove that the
generated definitions ARE the hand-written `pfiExplainM` / `sageExplainM` the property theorems are about.

This translator is an ADDITIONAL tie: when it rejects the source (Unsupported) or the bridge stops checking, the checks fall
back to the correspondence runs with a raised budget (see harness/core.py `soft_bridge`); that alone is never a violation.

Vocabulary (part of the trusted base; anything else raises Unsupported with file:line):
  self.seen_samples                      -> (World).seen
  self.feature_names                     -> parameter feature_names : List Nat
  self.n_inner_samples                   -> parameter cfg_n_inner_samples : Nat
  self._importance_trackers / _variance_trackers / _marginal_prediction_tracker   (MV K)  -> est.importance / variance / margPred
  self._marginal_loss_tracker / _model_loss_tracker                               (Tr K)  -> est.margLoss / modelLoss
  self.marginal_prediction               -> est.margPredCur
  self.<property> of the explainer bases -> inlined from the property's `return <expr>`
  self._model_function(x)                -> callModel O x          (effect)
  self._loss_function(y, p)              -> callLoss O y p         (effect)
  self._imputer.impute(S, x_i, n)        -> imputeM S n            (effect; the instance must be the parameter x_i)
  self._storage.update(x_i, y_i)         -> callStorage O          (effect; the arguments must be the parameters x_i, y_i)
  np.random.permutation(n)               -> parameter permutation : Nat → List Nat
  copy.deepcopy(v)                       -> v  (values are immutable in Lean);  `t = self._tracker` WITHOUT deepcopy is an alias:
                                            `t.update(..)` then mutates the explainer's tracker
  np.mean(l) -> meanK l ; _get_mean_model_output(l) -> meanOutput l ; set(l) / list(l) -> l ; s.remove(k) -> s.erase k
  d[k] (read) -> d.getD k 0 ; d[k] = v -> Dict.set ; {k: e for k in l} -> Dict.ofPairs (l.map ..) ; [e for v in l] -> map / M.mapM'
  l[i] (read of a list of names) -> l.getD i 0
"""
import ast
import hashlib
import os
import sys

REPO = os.environ.get("IXAI_REPO", "/repo")


class Unsupported(Exception):
    pass


FILES = {
    "BaseIncrementalExplainer": "ixai/explainer/base.py",
    "BaseIncrementalFeatureImportance": "ixai/explainer/base.py",
    "IncrementalPFI": "ixai/explainer/pfi.py",
    "IncrementalSage": "ixai/explainer/sage/incremental.py",
}
EMIT = ["IncrementalPFI", "IncrementalSage"]

LEAN_TY = {"DictTr": "Dict (Tr K)", "Str": "String", "ListInst": "List (Inst V)", "ListY": "List Y",
           "DictV": "Dict V", "Out": "O", "ListOut": "List O",
           "K": "K", "Nat": "Nat", "Bool": "Bool", "DictK": "Dict K", "ListDictK": "List (Dict K)", "ListK": "List K",
           "ListNat": "List Nat", "MV": "MV K", "Tr": "Tr K", "Inst": "Inst V", "Y": "Y", "Unit": "Unit"}

STATE_FIELDS = {  # python attribute -> (lean field of Est, type)
    "_importance_trackers": ("importance", "MV"), "_variance_trackers": ("variance", "MV"),
    "_marginal_prediction_tracker": ("margPred", "MV"), "_marginal_loss_tracker": ("margLoss", "Tr"),
    "_model_loss_tracker": ("modelLoss", "Tr"), "marginal_prediction": ("margPredCur", "DictK"),
}
PARAMS = {"x_i": "Inst", "y_i": "Y", "n_inner_samples": ("Opt", "Nat"), "update_storage": "Bool"}


def lean_ty(t):
    if isinstance(t, tuple) and t[0] == "Opt":
        return f"Option ({lean_ty(t[1])})"
    if isinstance(t, tuple) and t[0] == "Tup":
        return "(" + " × ".join(lean_ty(x) for x in t[1]) + ")"
    if isinstance(t, Hole):
        return lean_ty(t.resolve())
    return LEAN_TY[t]


class Hole:
    """type of a variable first assigned `None`: resolved by the first non-None assignment"""
    n = 0

    def __init__(self):
        Hole.n += 1
        self.id = Hole.n
        self.ty = None
        self.where = ""

    def resolve(self):
        if self.ty is None:
            raise Unsupported(f"{self.where}: cannot infer the type of a variable that is only ever None")
        return self.ty


def norm(t):
    while isinstance(t, Hole) and t.ty is not None:
        t = t.ty
    if isinstance(t, tuple) and t[0] == "Opt":
        return ("Opt", norm(t[1]))
    return t


class Var:
    def __init__(self, lean, ty, kind="val", field=None, mut=False, opt_of=None):
        self.lean, self.ty, self.kind, self.field, self.mut, self.opt_of = lean, ty, kind, field, mut, opt_of


class Fn:
    """one translated method"""
    supports_helpers = True

    def __init__(self, src, cname, fn, rel):
        self.src, self.cname, self.fn, self.rel = src, cname, fn, rel
        self.env = {}
        self.counter = 0
        self.uses_perm = False
        self.last_decl_types = {}
        self.helpers = {}
        self.stores = {}
        for n in ast.walk(fn):
            for tgt in self.store_targets(n):
                self.stores[tgt] = self.stores.get(tgt, 0) + 1
        self.in_loop = 0

    @staticmethod
    def store_targets(n):
        out = []

        def names(t):
            if isinstance(t, ast.Name):
                out.append(t.id)
            elif isinstance(t, (ast.Tuple, ast.List)):
                for e in t.elts:
                    names(e)
            elif isinstance(t, ast.Subscript) and isinstance(t.value, ast.Name):
                out.append(t.value.id)
        if isinstance(n, ast.Assign):
            for t in n.targets:
                names(t)
        elif isinstance(n, (ast.AugAssign, ast.AnnAssign)):
            names(n.target)
        elif isinstance(n, ast.Expr) and isinstance(n.value, ast.Call) and isinstance(n.value.func, ast.Attribute) \
                and isinstance(n.value.func.value, ast.Name) and n.value.func.attr in ("update", "remove", "add", "append", "discard"):
            out.append(n.value.func.value.id)
        elif isinstance(n, ast.For):
            pass
        return out

    def err(self, node, msg):
        raise Unsupported(f"{self.rel}:{getattr(node, 'lineno', '?')}: {msg}: `{ast.unparse(node)[:80]}`")

    def fresh(self, base):
        self.counter += 1
        return f"{base}_{self.counter}"

    # ---- expressions ------------------------------------------------------------------------------------------------
    # returns (lean text, type, effectful: bool); `self.w` is the name of the world snapshot of the current statement
    def need_world(self):
        self.world_used = True
        return self.w

    def expr(self, e, allow_eff=True):
        if isinstance(e, ast.Constant):
            if e.value is None:
                return "none", ("Opt", Hole()), False
            if isinstance(e.value, bool):
                return ("true" if e.value else "false"), "Bool", False
            if isinstance(e.value, int):
                return str(e.value), "IntLit", False
            if isinstance(e.value, float) and e.value == int(e.value):
                return str(int(e.value)), "IntLit", False
            self.err(e, "unsupported constant")
        if isinstance(e, ast.Name):
            if e.id not in self.env:
                self.err(e, f"variable `{e.id}` is not in scope here (assigned only inside a nested block?)")
            v = self.env[e.id]
            if v.kind == "alias":
                return f"{self.need_world()}.est.{v.field}", v.ty, False
            return v.lean, v.ty, False
        if isinstance(e, ast.Attribute) and isinstance(e.value, ast.Name) and e.value.id == "self":
            return self.self_attr(e)
        if isinstance(e, ast.BinOp):
            return self.binop(e, allow_eff)
        if isinstance(e, ast.UnaryOp) and isinstance(e.op, ast.USub):
            v, t, eff = self.expr(e.operand, allow_eff)
            return f"(0 - {self.asK(v, t, e)})", "K", eff
        if isinstance(e, ast.UnaryOp) and isinstance(e.op, ast.Not):
            v, t, eff = self.expr(e.operand, allow_eff)
            if t != "Bool":
                self.err(e, "`not` of a non-boolean")
            return f"(!{v})", "Bool", eff
        if isinstance(e, ast.Compare):
            return self.compare(e, allow_eff)
        if isinstance(e, ast.BoolOp):
            parts = [self.expr(x, allow_eff=False) for x in e.values]
            if any(t != "Bool" for _, t, _ in parts):
                self.err(e, "and/or of non-booleans")
            op = " && " if isinstance(e.op, ast.And) else " || "
            return "(" + op.join(p for p, _, _ in parts) + ")", "Bool", False
        if isinstance(e, ast.Call):
            return self.call(e, allow_eff)
        if isinstance(e, ast.Subscript):
            base, bt, eff1 = self.expr(e.value, allow_eff)
            idx, it, eff2 = self.expr(e.slice, allow_eff)
            bt = norm(bt)
            if bt == "DictK":
                return f"({base}.getD {self.asNat(idx, it, e)} 0)", "K", eff1 or eff2
            if bt == "ListNat":
                return f"({base}.getD {self.asNat(idx, it, e)} 0)", "Nat", eff1 or eff2
            self.err(e, f"subscript of a value of type {bt}")
        if isinstance(e, ast.List):
            parts = [self.expr(x, allow_eff) for x in e.elts]
            if not parts:
                self.err(e, "empty list literal")
            ts = {norm(t) if t != "IntLit" else "Nat" for _, t, _ in parts}
            if ts == {"Nat"}:
                return "[" + ", ".join(p for p, _, _ in parts) + "]", "ListNat", any(x for _, _, x in parts)
            self.err(e, "list literal of unsupported element type")
        if isinstance(e, ast.Dict) and not e.keys:
            return "([] : Dict K)", "DictK", False
        if isinstance(e, ast.Tuple):
            parts = [self.expr(x, allow_eff) for x in e.elts]
            return "(" + ", ".join(p for p, _, _ in parts) + ")", ("Tup", [norm(t) for _, t, _ in parts]), any(x for _, _, x in parts)
        if isinstance(e, ast.ListComp):
            return self.listcomp(e, allow_eff)
        if isinstance(e, ast.DictComp):
            return self.dictcomp(e)
        if isinstance(e, ast.IfExp):
            t_ = e.test
            if isinstance(t_, ast.Compare) and len(t_.ops) == 1 and isinstance(t_.ops[0], (ast.Is, ast.IsNot)) \
                    and isinstance(t_.comparators[0], ast.Constant) and t_.comparators[0].value is None and isinstance(t_.left, ast.Name):
                ov, ot, _ = self.expr(t_.left)
                ot = norm(ot)
                if not (isinstance(ot, tuple) and ot[0] == "Opt"):
                    self.err(e, "None test of a value that is never None")
                some_branch, none_branch = (e.orelse, e.body) if isinstance(t_.ops[0], ast.Is) else (e.body, e.orelse)
                nm = self.fresh("v")
                saved = dict(self.env)
                self.env[t_.left.id] = Var(nm, ot[1])
                sv, st, _ = self.expr(some_branch, allow_eff=False)
                self.env = saved
                nv, nt, _ = self.expr(none_branch, allow_eff=False)
                if self.unify(st, nt, e) is None:
                    self.err(e, "branches of different types")
                return f"(match {ov} with | some {nm} => {sv} | none => {nv})", self.unify(st, nt, e), False
            c, ct, _ = self.expr(e.test, allow_eff=False)
            a, at, ea = self.expr(e.body, allow_eff)
            b, bt, eb = self.expr(e.orelse, allow_eff)
            ty = self.unify(at, bt, e)
            if ct != "Bool" or ty is None:
                self.err(e, "unsupported conditional expression")
            if ea or eb:
                # only the chosen branch may run its effects: both branches must be single monadic actions
                def action(x, eff):
                    if not eff:
                        return f"(pure {x})"
                    if x.startswith("(← ") and x.endswith(")") and x.count("←") == 1:
                        return "(" + x[3:-1] + ")"
                    self.err(e, "conditional expression whose branch mixes effects with other computation")
                return f"(← if {c} then {action(a, ea)} else {action(b, eb)})", ty, True
            return f"(if {c} then {a} else {b})", ty, False
        self.err(e, "unsupported expression")

    def unify(self, a, b, node):
        a, b = norm(a), norm(b)
        if a == "IntLit":
            return b if b in ("Nat", "K", "IntLit") else None
        if b == "IntLit":
            return a if a in ("Nat", "K") else None
        return a if a == b else None

    def asK(self, v, t, node):
        t = norm(t)
        if t == "K":
            return v
        if t == "IntLit":
            return f"({v} : K)"
        if t == "Nat":
            return f"(({v} : Nat) : K)"
        self.err(node, f"a number is expected, not {t}")

    def asNat(self, v, t, node):
        t = norm(t)
        if t in ("Nat", "IntLit"):
            return v
        self.err(node, f"a natural number is expected, not {t}")

    def binop(self, e, allow_eff):
        a, at, e1 = self.expr(e.left, allow_eff)
        b, bt, e2 = self.expr(e.right, allow_eff)
        at, bt = norm(at), norm(bt)
        eff = e1 or e2
        if isinstance(e.op, ast.Pow):
            if bt == "IntLit" and b == "2":
                return f"(sq {self.asK(a, at, e)})", "K", eff
            if bt in ("IntLit", "Nat"):
                return f"(npow {self.asK(a, at, e)} {b})", "K", eff
            self.err(e, "unsupported power")
        ops = {ast.Add: "+", ast.Sub: "-", ast.Mult: "*", ast.Div: "/"}
        if type(e.op) not in ops:
            self.err(e, "unsupported operator")
        op = ops[type(e.op)]
        if at in ("Nat", "IntLit") and bt in ("Nat", "IntLit") and op in ("+", "*"):
            return f"({a} {op} {b})", ("IntLit" if at == bt == "IntLit" else "Nat"), eff
        return f"({self.asK(a, at, e)} {op} {self.asK(b, bt, e)})", "K", eff

    def compare(self, e, allow_eff):
        if len(e.ops) != 1:
            self.err(e, "chained comparison")
        op = e.ops[0]
        a, at, e1 = self.expr(e.left, allow_eff)
        b, bt, e2 = self.expr(e.comparators[0], allow_eff)
        at, bt = norm(at), norm(bt)
        sym = {ast.Lt: "<", ast.LtE: "≤", ast.Gt: ">", ast.GtE: "≥", ast.Eq: "=", ast.NotEq: "≠"}.get(type(op))
        if sym is None:
            self.err(e, "unsupported comparison")
        if at in ("Nat", "IntLit") and bt in ("Nat", "IntLit"):
            return f"decide ({a} {sym} {b})", "Bool", e1 or e2
        self.err(e, "comparison of non-integers")

    def self_attr(self, e):
        a = e.attr
        if a == "seen_samples":
            return f"{self.need_world()}.seen", "Nat", False
        if a == "feature_names":
            return "feature_names", "ListNat", False
        if a == "n_inner_samples":
            return "cfg_n_inner_samples", "Nat", False
        if a == "number_of_features":
            return "feature_names.length", "Nat", False
        if a in STATE_FIELDS:
            f, t = STATE_FIELDS[a]
            return f"{self.need_world()}.est.{f}", t, False
        prop = self.src.find_property(self.cname, a)
        if prop is not None:
            fn, rel = prop
            body = [s for s in fn.body if not (isinstance(s, ast.Expr) and isinstance(s.value, ast.Constant))]
            if len(body) == 1 and isinstance(body[0], ast.Return) and body[0].value is not None:
                saved_rel, self.rel = self.rel, rel
                try:
                    return self.expr(body[0].value, allow_eff=False)
                finally:
                    self.rel = saved_rel
            self.err(e, f"property `{a}` is not a single return")
        self.err(e, f"unknown attribute of the explainer")

    def kwargs(self, call, names, node):
        """positional + keyword arguments of a call matched against parameter names"""
        got = {}
        for n_, a in zip(names, call.args):
            got[n_] = a
        if len(call.args) > len(names):
            self.err(node, "too many arguments")
        for kw in call.keywords:
            if kw.arg not in names or kw.arg in got:
                self.err(node, f"unexpected argument {kw.arg}")
            got[kw.arg] = kw.value
        return got

    def call(self, e, allow_eff):
        f = e.func
        name = ast.unparse(f)
        if name == "self._model_function":
            if not allow_eff:
                self.err(e, "callback inside a pure context")
            if len(e.args) != 1 or e.keywords:
                self.err(e, "model function call shape")
            x, xt, eff = self.expr(e.args[0])
            if norm(xt) != "Inst":
                self.err(e, "the model function is applied to something that is not an instance")
            return f"(← callModel O {x})", "DictK", True
        if name == "self._loss_function":
            if not allow_eff:
                self.err(e, "callback inside a pure context")
            if len(e.args) != 2 or e.keywords:
                self.err(e, "loss function call shape")
            y, yt, _ = self.expr(e.args[0])
            p, pt, _ = self.expr(e.args[1])
            if norm(yt) != "Y" or norm(pt) != "DictK":
                self.err(e, f"loss function applied to ({norm(yt)}, {norm(pt)}) instead of (label, prediction)")
            return f"(← callLoss O {y} {p})", "K", True
        if name == "self._imputer.impute":
            if not allow_eff:
                self.err(e, "callback inside a pure context")
            got = self.kwargs(e, ["feature_subset", "x_i", "n_samples"], e)
            if set(got) != {"feature_subset", "x_i", "n_samples"}:
                self.err(e, "imputer call without explicit feature_subset / x_i / n_samples")
            s, st, _ = self.expr(got["feature_subset"])
            x, xt, _ = self.expr(got["x_i"])
            n, nt, _ = self.expr(got["n_samples"])
            if norm(st) != "ListNat" or x != "x_i" or norm(nt) not in ("Nat", "IntLit"):
                self.err(e, "imputer call on something other than (feature subset, the explained instance, a count)")
            return f"(← imputeM {s} {n})", "ListDictK", True
        if name == "self._storage.update":
            if not allow_eff:
                self.err(e, "callback inside a pure context")
            got = self.kwargs(e, ["x", "y"], e)
            xs = [self.expr(got[k])[0] for k in ("x", "y") if k in got]
            if xs != ["x_i", "y_i"]:
                self.err(e, "the storage is updated with something other than the explained observation")
            return "(← callStorage O)", "Unit", True
        if name == "np.random.permutation":
            if len(e.args) != 1:
                self.err(e, "permutation call shape")
            n, nt, _ = self.expr(e.args[0])
            self.uses_perm = True
            return f"(permutation {self.asNat(n, nt, e)})", "ListNat", False
        if name in ("copy.deepcopy", "copy.copy", "deepcopy") and len(e.args) == 1:
            v, t, eff = self.expr(e.args[0], allow_eff)
            return v, t, eff
        if name == "len" and len(e.args) == 1:
            v, t, eff = self.expr(e.args[0], allow_eff)
            if norm(t) in ("ListNat", "ListK", "ListDictK", "DictK"):
                return f"{v}.length", "Nat", eff
            self.err(e, "len of unsupported value")
        if name in ("set", "list") and len(e.args) == 1:
            v, t, eff = self.expr(e.args[0], allow_eff)
            if norm(t) == "ListNat":
                return v, "ListNat", eff
            self.err(e, f"{name}() of unsupported value")
        if name in ("np.mean", "numpy.mean") and len(e.args) == 1:
            v, t, eff = self.expr(e.args[0], allow_eff)
            if norm(t) == "ListK":
                return f"(meanK {v})", "K", eff
            self.err(e, "mean of unsupported value")
        if name == "_get_mean_model_output" and len(e.args) == 1:
            v, t, eff = self.expr(e.args[0], allow_eff)
            if norm(t) == "ListDictK":
                return f"(meanOutput {v})", "DictK", eff
            self.err(e, "mean model output of unsupported value")
        if isinstance(f, ast.Attribute) and not e.args and not e.keywords and f.attr in ("get", "get_normalized", "__call__"):
            v, t, eff = self.expr(f.value, allow_eff)
            t = norm(t)
            if t == "MV":
                return (f"({v}.getNormalized)" if f.attr == "get_normalized" else f"({v}.get)"), "DictK", eff
            if t == "Tr" and f.attr in ("get", "__call__"):
                return f"({v}.get)", "K", eff
            self.err(e, f"{f.attr}() of unsupported value")
        if isinstance(f, ast.Attribute) and isinstance(f.value, ast.Name) and f.value.id in ("self", self.cname) \
                and self.supports_helpers and self.src.find_method(self.cname, f.attr)[0] is not None:
            return self.helper_call(e, allow_eff)
        if isinstance(f, ast.Name) and self.supports_helpers and self.module_function(f.id) is not None:
            return self.helper_call(e, allow_eff)
        self.err(e, "unsupported call")

    def helper_call(self, e, allow_eff):
        """a private helper method of the explainer, translated as its own definition in the same monad (parameter types are
        taken from this call's arguments)"""
        if not allow_eff:
            self.err(e, "helper call inside a pure context")
        if getattr(self, "depth", 0) > 3:
            self.err(e, "helpers nested too deeply")
        name = e.func.attr if isinstance(e.func, ast.Attribute) else e.func.id
        if isinstance(e.func, ast.Attribute):
            fn, rel, owner = self.src.find_method(self.cname, name)
        else:
            fn, rel = self.module_function(name), self.rel
        if fn is None:
            self.err(e, "unsupported call")
        if any(isinstance(d, ast.Name) and d.id == "property" for d in fn.decorator_list) or name == "explain_one":
            self.err(e, "unsupported call")
        skip = 1 if fn.args.args and fn.args.args[0].arg in ("self", "cls") else 0
        params = [a.arg for a in fn.args.args[skip:]]
        got = self.kwargs(e, params, e)
        dflt = dict(zip(params[len(params) - len(fn.args.defaults):], fn.args.defaults))
        vals = []
        for pn in params:
            node = got.get(pn, dflt.get(pn))
            if node is None:
                self.err(e, f"missing argument {pn} of helper {name}")
            v, t, _ = self.expr(node)
            t = norm(t)
            vals.append((pn, v, "Nat" if t == "IntLit" else t))
        sub = type(self)(self.src, self.cname, fn, rel)
        sub.helper_mode, sub.ret_type, sub.depth = True, None, getattr(self, "depth", 0) + 1
        sub.is_helper = True
        sub.helpers = self.helpers
        sub.deferred_types = []
        pre = []
        for pn, _, t in vals:
            if isinstance(t, tuple) and t[0] == "Opt" and isinstance(t[1], Hole):
                self.err(e, f"argument {pn} of helper {name} is a bare None")
            if t == "V":
                self.err(e, f"argument {pn} of helper {name} is a bare feature value")
            if sub.stores.get(pn, 0) > 0:
                sub.env[pn] = Var(pn, t, mut=True)
                pre.append(f"let mut {pn} := {pn}")
            else:
                sub.env[pn] = Var(pn, t)
        body = pre + sub.block(fn.body, sub.new_scope())
        text = "\n".join("  " + x for x in body)
        for ph, ty in sub.deferred_types:
            text = text.replace(ph, lean_ty(ty))
        ret = sub.ret_type or "Unit"
        if sub.uses_perm:
            self.uses_perm = True
        key = (name, tuple(t if isinstance(t, str) else repr(t) for _, _, t in vals))
        variants = [k for k in self.helpers if k[0] == name and k != key]
        lname = f"{self.cname}.{name}" + (f"_{len(variants) + 1}" if variants else "")
        sig = " ".join(self.helper_param(pn, t) for pn, _, t in vals)
        self.helpers[key] = (lname, sub.uses_perm, sig, ret, text)
        if getattr(sub, "uses_draws", False):
            self.uses_draws = True
        fixed = self.helper_fixed_args(sub)
        return f"(← {lname} {fixed} {' '.join(self.helper_arg(node_, v, t) for (pn, v, t), node_ in zip(vals, [got.get(pn, dflt.get(pn)) for pn in params]))})", ret, True

    # hooks for the profiles
    def helper_param(self, pn, t):
        return f"({pn} : {lean_ty(t)})"

    def helper_arg(self, node, v, t):
        return v

    def helper_fixed_args(self, sub):
        return "O feature_names cfg_n_inner_samples " + ("permutation " if sub.uses_perm else "") + "imputeM"

    def module_function(self, name):
        return None

    def listcomp(self, e, allow_eff):
        if len(e.generators) != 1 or e.generators[0].ifs or not isinstance(e.generators[0].target, ast.Name):
            self.err(e, "unsupported comprehension")
        g = e.generators[0]
        it, itt, ieff = self.expr(g.iter, allow_eff)
        itt = norm(itt)
        elt_ty = {"ListNat": "Nat", "ListK": "K", "ListDictK": "DictK"}.get(itt)
        if elt_ty is None:
            self.err(e, f"comprehension over a value of type {itt}")
        saved = dict(self.env)
        vn = g.target.id
        self.env[vn] = Var(vn, elt_ty)
        body, bt, beff = self.expr(e.elt, allow_eff)
        self.env = saved
        bt = norm(bt)
        out_ty = {"Nat": "ListNat", "K": "ListK", "DictK": "ListDictK"}.get(bt)
        if out_ty is None:
            self.err(e, f"comprehension producing values of type {bt}")
        if beff:
            return f"(← M.mapM' (fun {vn} => do pure {body}) {it})", out_ty, True
        return f"({it}.map (fun {vn} => {body}))", out_ty, ieff

    def dictcomp(self, e):
        if len(e.generators) != 1 or e.generators[0].ifs or not isinstance(e.generators[0].target, ast.Name):
            self.err(e, "unsupported comprehension")
        g = e.generators[0]
        it, itt, _ = self.expr(g.iter, allow_eff=False)
        if norm(itt) != "ListNat":
            self.err(e, "dict comprehension over something other than a list of names")
        saved = dict(self.env)
        vn = g.target.id
        self.env[vn] = Var(vn, "Nat")
        k, kt, _ = self.expr(e.key, allow_eff=False)
        v, vt, _ = self.expr(e.value, allow_eff=False)
        self.env = saved
        return f"(Dict.ofPairs ({it}.map (fun {vn} => ({self.asNat(k, kt, e)}, {self.asK(v, vt, e)}))))", "DictK", False

    # ---- statements -------------------------------------------------------------------------------------------------
    def with_world(self, build):
        """run `build()` (which returns lines) with a fresh world snapshot name; prefix the snapshot if it was used"""
        saved = (getattr(self, "w", None), getattr(self, "world_used", False))
        self.w = self.fresh("w")
        self.world_used = False
        lines = build()
        if self.world_used and any((self.w + ".") in ln for ln in lines):
            lines = [f"let {self.w} ← M.get"] + lines
        self.w, self.world_used = saved
        return lines

    def declare(self, name, value, ty, node, scope):
        """assignment `name = value` (value a Lean term of type ty)"""
        ty = norm(ty)
        if ty == "IntLit":
            ty = "Nat"
        cur = self.env.get(name)
        is_none = isinstance(ty, tuple) and ty[0] == "Opt" and value == "none"
        if cur is not None and cur.opt_of is not None and not is_none:
            # narrowed optional variable: keep working on the narrowed value
            if self.unify(cur.ty, ty, node) is None:
                self.err(node, f"`{name}` changes its type from {cur.ty} to {ty}")
            if not cur.mut:
                self.err(node, f"internal: narrowed `{name}` not mutable")
            return [f"{cur.lean} := {value}"]
        if cur is not None and cur.opt_of is not None and is_none:
            opt = cur.opt_of
            self.env[name] = opt
            scope["narrowed"].pop(name, None)
            return [f"{opt.lean} := none"]
        if cur is not None and cur.kind == "val":
            ct = norm(cur.ty)
            if isinstance(ct, tuple) and ct[0] == "Opt":
                if is_none:
                    if not cur.mut:
                        self.err(node, f"assignment to immutable `{name}`")
                    return [f"{cur.lean} := none"]
                # non-None value assigned to an optional variable: narrow it for the rest of this block
                inner = ct[1]
                if isinstance(inner, Hole) and inner.ty is None:
                    inner.ty = ty
                elif self.unify(inner, ty, node) is None:
                    self.err(node, f"`{name}` is assigned values of different types ({norm(inner)} and {ty})")
                nv = Var(self.fresh(name + "_v"), ty, mut=True, opt_of=cur)
                self.env[name] = nv
                scope["narrowed"][name] = nv
                return [f"let mut {nv.lean} : {lean_ty(ty)} := {value}"]
            if self.unify(ct, ty, node) is None:
                if name in scope["declared"]:
                    # Python re-binds the name to a value of another type: a new (shadowing) Lean variable, legal because the old one
                    # was declared in this very block
                    mut = self.stores.get(name, 0) > 2
                    nn = self.fresh(name + "_r")      # a fresh Lean name (a `let mut` variable cannot be shadowed)
                    self.env[name] = Var(nn, ty, mut=mut)
                    self.last_decl_types[name] = ty
                    return [f"let {'mut ' if mut else ''}{nn} : {lean_ty(ty)} := {value}"]
                self.err(node, f"`{name}` changes its type from {ct} to {ty}")
            if not cur.mut:
                self.err(node, f"assignment to immutable `{name}`")
            return [f"{cur.lean} := {value}"]
        # new variable in this scope
        mut = self.stores.get(name, 0) > 1
        if is_none:
            hole = ty[1]
            if isinstance(hole, Hole):
                hole.where = f"{self.rel}:{getattr(node, 'lineno', '?')}"
            v = Var(name, ty, mut=True)
            self.env[name] = v
            scope["declared"].append(name)
            self.deferred_types.append((f"@@TYPE_OF_{name}_{id(v)}@@", ty))
            return [f"let mut {name} : @@TYPE_OF_{name}_{id(v)}@@ := none"]
        v = Var(name, ty, mut=mut)
        self.env[name] = v
        scope["declared"].append(name)
        self.last_decl_types[name] = ty
        return [f"let {'mut ' if mut else ''}{name} : {lean_ty(ty)} := {value}"]

    def new_scope(self):
        return {"declared": [], "narrowed": {}, "env": dict(self.env)}

    def close_scope(self, scope):
        """lines that re-synchronise narrowed optionals; restores the environment (outer variables keep their Var objects)"""
        lines = []
        for name, nv in scope["narrowed"].items():
            if nv.opt_of.mut:
                lines.append(f"{nv.opt_of.lean} := some {nv.lean}")
        outer = scope["env"]
        self.env = dict(outer)
        return lines

    def block(self, stmts, scope=None):
        own = scope is None
        if own:
            scope = self.new_scope()
        lines = []
        for s in stmts:
            lines += self.stmt(s, scope)
        if own:
            lines += self.close_scope(scope)
        if not lines:
            lines = ["pure ()"]
        return lines

    def none_test(self, test):
        """(name, is_none: bool) for `name is None` / `name is not None`"""
        if isinstance(test, ast.Compare) and len(test.ops) == 1 and isinstance(test.ops[0], (ast.Is, ast.IsNot)) \
                and isinstance(test.left, ast.Name) and isinstance(test.comparators[0], ast.Constant) \
                and test.comparators[0].value is None:
            return test.left.id, isinstance(test.ops[0], ast.Is)
        return None

    def stmt(self, s, scope):
        if isinstance(s, ast.Expr) and isinstance(s.value, ast.Constant):
            return []
        if isinstance(s, ast.Pass):
            return []
        if isinstance(s, ast.Assign):
            if len(s.targets) != 1:
                self.err(s, "multiple assignment targets")
            return self.with_world(lambda: self.assign(s.targets[0], s.value, s, scope))
        if isinstance(s, ast.AnnAssign) and s.value is not None:
            return self.with_world(lambda: self.assign(s.target, s.value, s, scope))
        if isinstance(s, ast.AugAssign):
            binop = ast.BinOp(left=self.as_load(s.target), op=s.op, right=s.value)
            ast.copy_location(binop, s)
            ast.fix_missing_locations(binop)
            return self.with_world(lambda: self.assign(s.target, binop, s, scope))
        if isinstance(s, ast.Expr) and isinstance(s.value, ast.Call):
            return self.with_world(lambda: self.call_stmt(s.value, s, scope))
        if isinstance(s, ast.If):
            return self.with_world(lambda: self.if_stmt(s, scope))
        if isinstance(s, ast.For):
            return self.with_world(lambda: self.for_stmt(s, scope))
        if isinstance(s, ast.Return):
            if s.value is None:
                self.err(s, "return without a value")

            def build():
                v, t, eff = self.expr(s.value)
                t = norm(t)
                if getattr(self, "helper_mode", False):
                    if t == "IntLit":
                        t = "Nat"
                    if getattr(self, "ret_type", None) not in (None, t):
                        self.err(s, f"helper returns values of different types ({self.ret_type} and {t})")
                    self.ret_type = t
                elif t != "DictK":
                    self.err(s, f"explain_one returns a value of type {t}")
                return [f"return {v}"]
            return self.with_world(build)
        self.err(s, "unsupported statement")

    @staticmethod
    def as_load(t):
        t2 = ast.parse(ast.unparse(t), mode="eval").body
        return t2

    def assign(self, target, value, node, scope):
        if isinstance(target, ast.Name):
            v, t, eff = self.expr(value)
            # `t = self._tracker` without a copy is an alias of the explainer's tracker
            if isinstance(value, ast.Attribute) and isinstance(value.value, ast.Name) and value.value.id == "self" \
                    and value.attr in STATE_FIELDS and STATE_FIELDS[value.attr][1] in ("MV", "Tr"):
                f, ft = STATE_FIELDS[value.attr]
                if target.id in self.env and self.env[target.id].kind != "alias":
                    self.err(node, "a local changes from a value to an alias")
                self.env[target.id] = Var(None, ft, kind="alias", field=f)
                scope["declared"].append(target.id)
                return []
            if target.id in self.env and self.env[target.id].kind == "alias":
                self.err(node, "an alias of explainer state is re-assigned")
            return self.declare(target.id, v, t, node, scope)
        if isinstance(target, ast.Attribute) and isinstance(target.value, ast.Name) and target.value.id == "self":
            a = target.attr
            v, t, eff = self.expr(value)
            t = norm(t)
            if a == "seen_samples":
                return [f"M.modify (fun w => {{ w with seen := {self.rebase_world(self.asNat(v, t, node))} }})"]
            if a in STATE_FIELDS:
                f, ft = STATE_FIELDS[a]
                if t != ft:
                    self.err(node, f"state field {a} : {ft} is assigned a value of type {t}")
                return [f"M.modify (fun w => {{ w with est := {{ w.est with {f} := {self.rebase_world(v)} }} }})"]
            self.err(node, "assignment to an unknown attribute of the explainer")
        if isinstance(target, ast.Subscript) and isinstance(target.value, ast.Name):
            d = self.env.get(target.value.id)
            if d is None or d.kind != "val" or norm(d.ty) != "DictK":
                self.err(node, "item assignment on something that is not a local dict")
            if not d.mut:
                self.err(node, "item assignment on an immutable local")
            k, kt, _ = self.expr(target.slice)
            v, vt, _ = self.expr(value)
            return [f"{d.lean} := Dict.set {d.lean} {self.asNat(k, kt, node)} {self.asK(v, vt, node)}"]
        if isinstance(target, (ast.Tuple, ast.List)) and isinstance(value, (ast.Tuple, ast.List)) and len(target.elts) == len(value.elts):
            # `a, b = e1, e2`: the whole right-hand side is evaluated first (left to right), then stored left to right
            lines, tmps = [], []
            for e_ in value.elts:
                v, t, eff = self.expr(e_)
                t = norm(t)
                if t == "IntLit":
                    t = "Nat"
                tn = self.fresh("rhs")
                lines.append(f"let {tn} : {lean_ty(t)} := {v}")
                tmps.append((tn, t))
            for tg, (tn, t) in zip(target.elts, tmps):
                if isinstance(tg, ast.Name):
                    lines += self.declare(tg.id, tn, t, node, scope)
                else:
                    fake = ast.Name(id="__tmp__", ctx=ast.Load())
                    saved = self.env.get("__tmp__")
                    self.env["__tmp__"] = Var(tn, t)
                    lines += self.assign(tg, fake, node, scope)
                    if saved is None:
                        self.env.pop("__tmp__", None)
                    else:
                        self.env["__tmp__"] = saved
            return lines
        if isinstance(target, (ast.Tuple, ast.List)) and all(isinstance(x, ast.Name) for x in target.elts):
            v, t, eff = self.expr(value)
            t = norm(t)
            if not (isinstance(t, tuple) and t[0] == "Tup" and len(t[1]) == len(target.elts)):
                self.err(node, "tuple unpacking of a value that is not a tuple of that length")
            tmp = [self.fresh("t") for _ in target.elts]
            lines = [f"let ({', '.join(tmp)}) := {v}"]
            for x, tn, ty in zip(target.elts, tmp, t[1]):
                lines += self.declare(x.id, tn, ty, node, scope)
            return lines
        self.err(node, "unsupported assignment target")

    def rebase_world(self, v):
        """inside `M.modify (fun w => ..)` the current world is `w`: a value computed from the statement's snapshot is the same
        (nothing between the snapshot and the modify changes the world), so refer to the bound `w` directly"""
        return v.replace(self.w + ".", "w.") if self.world_used else v

    def call_stmt(self, call, node, scope):
        f = call.func
        name = ast.unparse(f)
        if name == "self._storage.update":
            v, t, eff = self.expr(call)
            return ["callStorage O"]
        if isinstance(f, ast.Attribute) and f.attr == "update" and len(call.args) == 1 and not call.keywords:
            arg, at, _ = self.expr(call.args[0])
            at = norm(at)
            # explainer state: self._tracker.update(v)
            if isinstance(f.value, ast.Attribute) and isinstance(f.value.value, ast.Name) and f.value.value.id == "self" \
                    and f.value.attr in STATE_FIELDS:
                fld_, ft = STATE_FIELDS[f.value.attr]
                return [self.modify_update(fld_, ft, arg, at, node)]
            if isinstance(f.value, ast.Name) and f.value.id in self.env:
                var = self.env[f.value.id]
                if var.kind == "alias":
                    return [self.modify_update(var.field, var.ty, arg, at, node)]
                vt = norm(var.ty)
                if vt in ("MV", "Tr"):
                    if not var.mut:
                        self.err(node, "update of an immutable local tracker")
                    return [f"{var.lean} := {var.lean}.update {self.update_arg(vt, arg, at, node)}"]
        if isinstance(f, ast.Attribute) and f.attr in ("remove", "discard") and len(call.args) == 1 and isinstance(f.value, ast.Name):
            var = self.env.get(f.value.id)
            if var is not None and var.kind == "val" and norm(var.ty) == "ListNat" and var.mut:
                k, kt, _ = self.expr(call.args[0])
                return [f"{var.lean} := {var.lean}.erase {self.asNat(k, kt, node)}"]
        if isinstance(f, ast.Attribute) and isinstance(f.value, ast.Name) and f.value.id in ("self", self.cname) and self.supports_helpers \
                and self.src.find_method(self.cname, f.attr)[0] is not None:
            v, t, _ = self.helper_call(call, True)
            return [f"let _ := {v}"]
        self.err(node, "unsupported expression statement")

    def update_arg(self, ft, arg, at, node):
        if ft == "MV":
            if at != "DictK":
                self.err(node, f"a multi-value tracker is updated with a value of type {at}")
            return arg
        return self.asK(arg, at, node)

    def modify_update(self, fld_, ft, arg, at, node):
        a = self.update_arg(ft, arg, at, node)
        return f"M.modify (fun w => {{ w with est := {{ w.est with {fld_} := w.est.{fld_}.update {self.rebase_world(a)} }} }})"

    def if_stmt(self, s, scope):
        nt = self.none_test(s.test)
        if nt is not None:
            name, is_none = nt
            var = self.env.get(name)
            if var is None:
                self.err(s, f"`{name}` is not in scope")
            if var.opt_of is not None:
                # statically known to be non-None here
                return self.block(s.orelse if is_none else s.body) if (s.orelse if is_none else s.body) else []
            vt = norm(var.ty)
            if not (isinstance(vt, tuple) and vt[0] == "Opt"):
                self.err(s, f"None test of `{name}` which is never None")
            none_body, some_body = (s.body, s.orelse) if is_none else (s.orelse, s.body)
            # idiom: `if x is None: x = <default>`  -> x is not None afterwards
            if is_none and not s.orelse and len(s.body) == 1 and isinstance(s.body[0], ast.Assign) \
                    and len(s.body[0].targets) == 1 and isinstance(s.body[0].targets[0], ast.Name) and s.body[0].targets[0].id == name:
                dv, dt, deff = self.expr(s.body[0].value, allow_eff=False)
                inner = vt[1]
                if isinstance(inner, Hole) and inner.ty is None:
                    inner.ty = norm(dt)
                if self.unify(inner, dt, s) is None:
                    self.err(s, "default of a different type")
                ity = norm(inner)
                nv = Var(self.fresh(name + "_v"), ity, mut=True, opt_of=var)
                self.env[name] = nv
                scope["narrowed"][name] = nv
                tmp = self.fresh("v")
                return [f"let mut {nv.lean} : {lean_ty(ity)} := match {var.lean} with | some {tmp} => {tmp} | none => {dv}"]
            inner = vt[1]
            tmp = self.fresh(name + "_v")
            lines = [f"match {var.lean} with", f"| some {tmp} =>"]
            saved = dict(self.env)
            self.env[name] = Var(tmp, inner, mut=False, opt_of=None)
            self.env[name].narrow_match = True
            body = self.block(some_body)
            self.env = dict(saved)
            lines += ["  " + x for x in body]
            lines += ["| none =>"]
            lines += ["  " + x for x in self.block(none_body)]
            self.env = dict(saved)
            return lines
        c, ct, eff = self.expr(s.test, allow_eff=False)
        if norm(ct) != "Bool":
            self.err(s, "condition is not boolean")
        # names that are first bound on EVERY path through this if/else are visible after it in Python: declare them before the `if`
        # (the placeholder value can never be read, every path overwrites it)
        hoist = [n_ for n_ in sorted(self.bound_after_if(s)) if n_ not in self.env] if s.orelse else []
        pre = []
        if hoist:
            snap = (dict(self.env), self.counter, list(self.deferred_types), dict(self.last_decl_types), self.uses_perm,
                    getattr(self, "uses_draws", False), getattr(self, "w", None), getattr(self, "world_used", False))
            self.last_decl_types = {}
            # trial translation of a branch that reaches the end, only to learn the types
            self.block(s.body if self.assigned_on_all_paths(s.body) is not None else s.orelse)
            types = dict(self.last_decl_types)
            (self.env, self.counter, self.deferred_types, self.last_decl_types, self.uses_perm, ud, self.w, self.world_used) = snap
            if hasattr(self, "uses_draws"):
                self.uses_draws = ud
            self.env = dict(self.env)
            for n_ in hoist:
                ty = norm(types.get(n_))
                dflt = {"DictV": "[]", "DictK": "[]", "ListOut": "[]", "ListNat": "[]", "ListK": "[]", "ListDictK": "[]", "Nat": "0",
                        "K": "0", "Bool": "false"}.get(ty if isinstance(ty, str) else None)
                if dflt is None:
                    self.err(s, f"`{n_}` is first assigned inside both branches with a type ({ty}) that has no placeholder value")
                self.env[n_] = Var(n_, ty, mut=True)
                scope["declared"].append(n_)
                pre.append(f"let mut {n_} : {lean_ty(ty)} := {dflt}")
        lines = pre + [f"if {c} then"]
        saved = dict(self.env)
        lines += ["  " + x for x in self.block(s.body)]
        self.env = dict(saved)
        if s.orelse:
            lines += ["else"]
            lines += ["  " + x for x in self.block(s.orelse)]
            self.env = dict(saved)
        return lines

    @staticmethod
    def assigned_on_all_paths(stmts):
        """names bound on every path through `stmts` that reaches their end; None when no path does (it ends in raise / return)"""
        out = set()
        for st in stmts:
            if isinstance(st, (ast.Raise, ast.Return)):
                return None
            if isinstance(st, ast.Assign) and len(st.targets) == 1 and isinstance(st.targets[0], ast.Name):
                out.add(st.targets[0].id)
            elif isinstance(st, ast.If) and st.orelse:
                a, b = Fn.assigned_on_all_paths(st.body), Fn.assigned_on_all_paths(st.orelse)
                if a is None and b is None:
                    return None
                out |= (b if a is None else (a if b is None else a & b))
        return out

    @staticmethod
    def bound_after_if(s):
        a, b = Fn.assigned_on_all_paths(s.body), Fn.assigned_on_all_paths(s.orelse)
        if a is None and b is None:
            return set()
        return b if a is None else (a if b is None else a & b)

    def for_stmt(self, s, scope):
        if s.orelse or not isinstance(s.target, ast.Name):
            self.err(s, "unsupported loop")
        it, itt, eff = self.expr(s.iter, allow_eff=False)
        itt = norm(itt)
        elt_ty = {"ListNat": "Nat", "ListK": "K", "ListDictK": "DictK"}.get(itt)
        if elt_ty is None:
            self.err(s, f"loop over a value of type {itt}")
        saved = dict(self.env)
        self.env[s.target.id] = Var(s.target.id, elt_ty)
        self.in_loop += 1
        body = self.block(s.body)
        self.in_loop -= 1
        self.env = dict(saved)
        return [f"for {s.target.id} in {it} do"] + ["  " + x for x in body]

    # ---- whole function ---------------------------------------------------------------------------------------------
    def translate(self):
        fn = self.fn
        self.deferred_types = []
        args = [a.arg for a in fn.args.args[1:]] + [a.arg for a in fn.args.kwonlyargs]
        if args != list(PARAMS):
            self.err(fn, f"signature of explain_one is {args}, expected {list(PARAMS)}")
        lines = []
        for a in args:
            t = PARAMS[a]
            if self.stores.get(a, 0) > 0:
                self.env[a] = Var(a, t, mut=True)
                lines.append(f"let mut {a} := {a}")
            else:
                self.env[a] = Var(a, t, mut=False)
        scope = self.new_scope()
        body = self.block(fn.body, scope)
        lines += body
        text = "\n".join("  " + x for x in lines)
        for ph, ty in self.deferred_types:
            text = text.replace(ph, lean_ty(ty))
        return text


# ----------------------------------------------------------------------------------------------------------------
# imputers (ixai/imputer/marginal_imputer.py, default_imputer.py): `do`-blocks over `StateM Nat` (the position in the sequence of
# index draws), the model a pure function.  Vocabulary:
#   random.randrange(n) -> (← drawIdx idxs n)            self.model_function(z) -> model z
#   self.sampling_strategy == 'joint' -> joint            self.storage_object / a `storage_object` parameter -> (rows, m)
#   storage.get_data() -> (rows, targets)                 len(features) -> m ; features[i] -> rows i ; inst[f] -> inst f ; .copy() -> id
#   {**x_i, **sampled} -> overlayD x_i sampled            self.values[f] -> values f
#   {f: e for f in S} -> Dict.ofPairs ; d[f] = e -> Dict.set ; l = [] / l.append(e) -> list ; [e for _ in range(n)] -> map over range
#   self._helper(args) / staticmethod helpers -> (← Class._helper idxs args)
# ----------------------------------------------------------------------------------------------------------------
IMP_FILES = {"BaseImputer": "ixai/imputer/base.py", "MarginalImputer": "ixai/imputer/marginal_imputer.py",
             "DefaultImputer": "ixai/imputer/default_imputer.py"}
IMP_EMIT = {"MarginalImputer": ["_sample_marginals", "_sample_product_marginals", "_sample", "impute"], "DefaultImputer": ["impute"]}
IMP_PARAM_TYPES = {"features": "Rows", "feature_subset": "ListNat", "storage_object": "Rows", "x_i": "Inst", "n_samples": "Nat"}
IMP_RETURNS = {"_sample_marginals": "DictV", "_sample_product_marginals": "DictV", "_sample": "DictV", "impute": "ListOut"}


class ImpFn(Fn):
    def __init__(self, src, cname, fn, rel):
        super().__init__(src, cname, fn, rel)
        self.uses_draws = False

    def helper_param(self, pn, t):
        return f"({pn} : Nat → Inst V) ({pn}_len : Nat)" if t == "Rows" else f"({pn} : {lean_ty(t)})"

    def helper_arg(self, node, v, t):
        return f"{v} {self.rows(node)[1]}" if t == "Rows" else v

    def helper_fixed_args(self, sub):
        # the samplers are static methods: only the draw source is in scope everywhere
        return "idxs" if self.cname == "MarginalImputer" else "model values"

    def rows(self, e):
        """(function, length) of an expression of type Rows"""
        if isinstance(e, ast.Name) and e.id in self.env and norm(self.env[e.id].ty) == "Rows":
            return self.env[e.id].lean, self.env[e.id].lean + "_len"
        if isinstance(e, ast.Attribute) and isinstance(e.value, ast.Name) and e.value.id == "self" and e.attr == "storage_object":
            return "storage_rows", "storage_len"
        self.err(e, "a list of stored observations is expected")

    def expr(self, e, allow_eff=True):
        if isinstance(e, ast.Attribute) and isinstance(e.value, ast.Name) and e.value.id == "self":
            if e.attr == "storage_object":
                return "storage_rows", "Rows", False
            if e.attr == "values":
                return "values", "Inst", False
            self.err(e, "unknown attribute of the imputer")
        if isinstance(e, ast.Name) and e.id in self.env and norm(self.env[e.id].ty) == "Rows":
            return self.env[e.id].lean, "Rows", False
        if isinstance(e, ast.Compare) and ast.unparse(e) in ("self.sampling_strategy == 'joint'", 'self.sampling_strategy == "joint"'):
            return "joint", "Bool", False
        if isinstance(e, ast.Subscript):
            base, bt, eff1 = self.expr(e.value, allow_eff)
            bt = norm(bt)
            idx, it, eff2 = self.expr(e.slice, allow_eff)
            if bt == "Rows":
                return f"({base} {self.asNat(idx, it, e)})", "Inst", eff1 or eff2
            if bt == "Inst":
                return f"({base} {self.asNat(idx, it, e)})", "V", eff1 or eff2
            self.err(e, f"subscript of a value of type {bt}")
        if isinstance(e, ast.Dict):
            if not e.keys:
                return "([] : Dict V)", "DictV", False
            if len(e.keys) == 2 and e.keys[0] is None and e.keys[1] is None:
                a, at, e1 = self.expr(e.values[0], allow_eff)
                b, bt, e2 = self.expr(e.values[1], allow_eff)
                if norm(at) != "Inst" or norm(bt) != "DictV":
                    self.err(e, "only {**instance, **sampled_values} is supported")
                return f"(overlayD {a} {b})", "Inst", e1 or e2
            self.err(e, "unsupported dict display")
        if isinstance(e, ast.List) and not e.elts:
            return "[]", "ListOut", False
        return super().expr(e, allow_eff)

    def call(self, e, allow_eff):
        f = e.func
        name = ast.unparse(f)
        if name in ("random.randrange",) and len(e.args) == 1 and not e.keywords:
            if not allow_eff:
                self.err(e, "random draw inside a pure context")
            n, nt, _ = self.expr(e.args[0])
            self.uses_draws = True
            return f"(← drawIdx idxs {self.asNat(n, nt, e)})", "Nat", True
        if name == "self.model_function" and len(e.args) == 1 and not e.keywords:
            z, zt, eff = self.expr(e.args[0], allow_eff)
            if norm(zt) != "Inst":
                self.err(e, "the model function is applied to something that is not an instance")
            return f"(model {z})", "Out", eff
        if name == "len" and len(e.args) == 1:
            a = e.args[0]
            v, t, eff = self.expr(a, allow_eff)
            if norm(t) == "Rows":
                return self.rows(a)[1], "Nat", eff
        if name == "range" and len(e.args) in (1, 2):
            if len(e.args) == 2:
                lo, lt, _ = self.expr(e.args[0])
                hi, ht, _ = self.expr(e.args[1])
                return f"(List.range' {self.asNat(lo, lt, e)} ({self.asNat(hi, ht, e)} - {self.asNat(lo, lt, e)}))", "ListNat", False
            n, nt, _ = self.expr(e.args[0])
            return f"(List.range {self.asNat(n, nt, e)})", "ListNat", False
        if isinstance(f, ast.Attribute) and f.attr == "copy" and not e.args:
            return self.expr(f.value, allow_eff)
        if isinstance(f, ast.Attribute) and f.attr == "get_data" and not e.args:
            v, t, eff = self.expr(f.value, allow_eff)
            if norm(t) == "Rows":
                return v, ("Tup", ["Rows", "Unit"]), eff
        if isinstance(f, ast.Attribute) and isinstance(f.value, ast.Name) and f.value.id in ("self", self.cname) \
                and f.attr in IMP_EMIT.get(self.cname, []) and not getattr(self, "is_helper", False):
            if not allow_eff:
                self.err(e, "helper call inside a pure context")
            h, hrel, _ = self.src.find_method(self.cname, f.attr)
            hparams = [a.arg for a in h.args.args if a.arg != "self"]
            got = self.kwargs(e, hparams, e)
            args = []
            for pn in hparams:
                if pn not in got:
                    d = dict(zip(hparams[len(hparams) - len(h.args.defaults):], h.args.defaults)).get(pn)
                    if d is None:
                        self.err(e, f"missing argument {pn}")
                    got[pn] = d
                v, t, _ = self.expr(got[pn])
                want = IMP_PARAM_TYPES.get(pn)
                if want is None or (norm(t) != want and not (want == "Nat" and norm(t) == "IntLit")):
                    self.err(e, f"argument {pn} of {f.attr} has type {norm(t)}, expected {want}")
                args.append(f"{v} {self.rows(got[pn])[1]}" if want == "Rows" else v)
            self.uses_draws = True
            extra = " joint" if f.attr == "_sample" else ""
            return f"(← {self.cname}.{f.attr} idxs{extra} {' '.join(args)})", IMP_RETURNS[f.attr], True
        return super().call(e, allow_eff)

    def listcomp(self, e, allow_eff):
        g = e.generators[0] if len(e.generators) == 1 else None
        if g is not None and not g.ifs and isinstance(g.target, ast.Name) and isinstance(g.iter, ast.Call) and ast.unparse(g.iter.func) == "range":
            it, _, _ = self.expr(g.iter)
            saved = dict(self.env)
            self.env[g.target.id] = Var(g.target.id if g.target.id != "_" else "_i", "Nat")
            body, bt, beff = self.expr(e.elt, allow_eff=False)
            self.env = saved
            if norm(bt) != "Out":
                self.err(e, "comprehension over a range producing something other than predictions")
            return f"({it}.map (fun {'_i' if g.target.id == '_' else g.target.id} => {body}))", "ListOut", False
        return super().listcomp(e, allow_eff)

    def dictcomp(self, e):
        if len(e.generators) != 1 or e.generators[0].ifs or not isinstance(e.generators[0].target, ast.Name):
            self.err(e, "unsupported comprehension")
        g = e.generators[0]
        it, itt, _ = self.expr(g.iter, allow_eff=False)
        if norm(itt) != "ListNat":
            self.err(e, "dict comprehension over something other than the feature subset")
        saved = dict(self.env)
        vn = g.target.id
        self.env[vn] = Var(vn, "Nat")
        k, kt, _ = self.expr(e.key, allow_eff=False)
        v, vt, _ = self.expr(e.value, allow_eff=False)
        self.env = saved
        if norm(vt) != "V":
            self.err(e, "dict comprehension whose values are not feature values")
        return f"(Dict.ofPairs ({it}.map (fun {vn} => ({self.asNat(k, kt, e)}, {v}))))", "DictV", False

    def assign(self, target, value, node, scope):
        if isinstance(target, ast.Subscript) and isinstance(target.value, ast.Name):
            d = self.env.get(target.value.id)
            if d is not None and d.kind == "val" and norm(d.ty) == "DictV":
                if not d.mut:
                    self.err(node, "item assignment on an immutable local")
                k, kt, _ = self.expr(target.slice)
                v, vt, _ = self.expr(value)
                if norm(vt) != "V":
                    self.err(node, "a feature value is expected")
                return [f"{d.lean} := Dict.set {d.lean} {self.asNat(k, kt, node)} {v}"]
        if isinstance(target, (ast.Tuple, ast.List)) and len(target.elts) == 2 and all(isinstance(x, ast.Name) for x in target.elts):
            v, t, _ = self.expr(value)
            t = norm(t)
            if isinstance(t, tuple) and t[0] == "Tup" and t[1] == ["Rows", "Unit"]:
                # features, _ = storage.get_data()
                nm = target.elts[0].id
                src_len = self.rows(value.func.value)[1]
                self.env[nm] = Var(nm, "Rows")
                scope["declared"].append(nm)
                return [f"let {nm} := {v}", f"let {nm}_len := {src_len}"]
        if isinstance(target, ast.Name) and target.id == "_":
            return []
        return super().assign(target, value, node, scope)

    def call_stmt(self, call, node, scope):
        f = call.func
        if isinstance(f, ast.Attribute) and f.attr == "append" and len(call.args) == 1 and isinstance(f.value, ast.Name):
            var = self.env.get(f.value.id)
            if var is not None and var.kind == "val" and norm(var.ty) == "ListOut" and var.mut:
                v, t, _ = self.expr(call.args[0])
                if norm(t) != "Out":
                    self.err(node, "a prediction is expected")
                return [f"{var.lean} := {var.lean} ++ [{v}]"]
        return super().call_stmt(call, node, scope)

    def for_stmt(self, s, scope):
        if isinstance(s.target, ast.Name) and s.target.id == "_":
            s = ast.For(target=ast.Name(id="_i", ctx=ast.Store()), iter=s.iter, body=s.body, orelse=s.orelse)
            ast.copy_location(s, s.iter)
            ast.fix_missing_locations(s)
        return super().for_stmt(s, scope)

    def stmt(self, s, scope):
        if isinstance(s, ast.Return) and s.value is not None:
            def build():
                v, t, eff = self.expr(s.value)
                if getattr(self, "is_helper", False):
                    t = norm(t)
                    if getattr(self, "ret_type", None) not in (None, t):
                        self.err(s, "helper returns values of different types")
                    self.ret_type = t
                    return [f"return {v}"]
                want = IMP_RETURNS[self.fn.name]
                if norm(t) != want:
                    self.err(s, f"{self.fn.name} returns a value of type {norm(t)}, expected {want}")
                return [f"return {v}"]
            return self.with_world(build)
        return super().stmt(s, scope)

    def translate(self):
        fn = self.fn
        self.deferred_types = []
        args = [a.arg for a in fn.args.args if a.arg != "self"]
        sig = []
        for a in args:
            t = IMP_PARAM_TYPES.get(a)
            if t is None:
                self.err(fn, f"parameter {a} is not in the translator schema")
            self.env[a] = Var(a, t, mut=False)
            sig.append(f"({a} : Nat → Inst V) ({a}_len : Nat)" if t == "Rows" else f"({a} : {lean_ty(t)})")
        scope = self.new_scope()
        body = self.block(fn.body, scope)
        text = "\n".join("  " + x for x in body)
        for ph, ty in self.deferred_types:
            text = text.replace(ph, lean_ty(ty))
        return sig, text


IMP_HEADER = """/-
  GENERATED by tools/py2lean_eff.py from {rels} — do not edit.
  sha256: {sha}
  `{cname}` statement by statement; index draws are explicit (`drawIdx idxs n` = the next `random.randrange(n)`).
-/
import IxaiVerif.Model.Imputer

namespace Ixai.Gen
open Ixai

variable {{V O : Type}}

"""


def translate_imputer(src, cname):
    out = []
    shared = {}
    emitted = set()
    for m in IMP_EMIT[cname]:
        fn, rel, owner = src.find_method(cname, m)
        if fn is None:
            raise Unsupported(f"{IMP_FILES[cname]}: {cname}.{m} not found")
        f = ImpFn(src, cname, fn, rel)
        f.helpers = shared
        sig, body = f.translate()
        for key, (lname, _, hsig, hret, htext) in shared.items():
            if key in emitted:
                continue
            emitted.add(key)
            if cname == "MarginalImputer":
                hfixed = "(idxs : Nat → Nat → Nat)"
                out.append(f"def {lname} {hfixed} {hsig} : StateM Nat ({lean_ty(hret)}) := do\n{htext}\n")
            else:
                out.append(f"def {lname} (model : Inst V → O) (values : Inst V) {hsig} : {lean_ty(hret)} := Id.run do\n{htext}\n")
        ret = lean_ty(IMP_RETURNS[m])
        fixed = []
        if cname == "MarginalImputer":
            fixed.append("(idxs : Nat → Nat → Nat)")
            if m == "_sample":
                fixed.append("(joint : Bool)")
            if m == "impute":
                fixed += ["(model : Inst V → O)", "(joint : Bool)", "(storage_rows : Nat → Inst V) (storage_len : Nat)"]
            out.append(f"def {cname}.{m} {' '.join(fixed + sig)} : StateM Nat ({ret}) := do\n{body}\n")
        else:
            fixed += ["(model : Inst V → O)", "(values : Inst V)"]
            if f.uses_draws:
                raise Unsupported(f"{rel}: {cname}.{m} draws random numbers")
            out.append(f"def {cname}.{m} {' '.join(fixed + sig)} : {ret} := Id.run do\n{body}\n")
    rels = sorted({IMP_FILES[c] for c in src.mro(cname)})
    sha = ",".join(src.sha[c] for c in src.mro(cname))
    return IMP_HEADER.format(rels=", ".join(rels), sha=sha, cname=cname) + "\n".join(out) + "\nend Ixai.Gen\n", rels, sha


# ----------------------------------------------------------------------------------------------------------------
# BatchSage.explain_many (ixai/explainer/sage/batch.py): again a `do`-block over `M K`.  Additional vocabulary:
#   self._model_function(x_data) on the list of instances -> (← M.mapM' (callModel O) x_data)   (wrappers evaluate batches row-wise: C14)
#   self._imputer.impute(S, x, n)                          -> (← imputeMx x S n)                 (the instance varies per observation)
#   np.random.permutation(k)                               -> permutation (invocation counter) k (one draw per explained observation)
#   for n, (x_i, y_i) in tqdm(enumerate(zip(xs, ys), start=1), …) -> for ((x_i, y_i), n) in (List.zip xs ys).zipIdx 1
#   self.importance_values = e  -> a local (BatchSage keeps the last result in a plain attribute) ; d[k] += e -> Dict.set d k (d.getD k 0 + e)
#   {k: e for k, v in d.items()} -> Dict.ofPairs (d.map ..)
# ----------------------------------------------------------------------------------------------------------------
BATCH_FILES = {"BatchSage": "ixai/explainer/sage/batch.py"}
BATCH_PARAMS = {"x_data": "ListInst", "y_data": "ListY", "n_inner_samples": ("Opt", "Nat"), "verbose": "Bool"}


class BatchFn(Fn):
    supports_helpers = True

    def helper_fixed_args(self, sub):
        self.uses_perm = True
        return "O feature_names cfg_n_inner_samples permutation imputeMx"
    def self_attr(self, e):
        if e.attr == "importance_values":
            if "self.importance_values" not in self.env:
                self.err(e, "self.importance_values is read before this call has assigned it")
            v = self.env["self.importance_values"]
            return v.lean, v.ty, False
        if e.attr in ("feature_names", "n_inner_samples"):
            return super().self_attr(e)
        self.err(e, "unknown attribute of the explainer")

    def call(self, e, allow_eff):
        name = ast.unparse(e.func)
        if name == "self._model_function" and len(e.args) == 1 and not e.keywords:
            x, xt, _ = self.expr(e.args[0])
            if norm(xt) == "ListInst":
                if not allow_eff:
                    self.err(e, "callback inside a pure context")
                return f"(← M.mapM' (fun x_row => callModel O x_row) {x})", "ListDictK", True
        if name == "self._imputer.impute":
            if not allow_eff:
                self.err(e, "callback inside a pure context")
            got = self.kwargs(e, ["feature_subset", "x_i", "n_samples"], e)
            if set(got) != {"feature_subset", "x_i", "n_samples"}:
                self.err(e, "imputer call without explicit feature_subset / x_i / n_samples")
            sv, st, _ = self.expr(got["feature_subset"])
            x, xt, _ = self.expr(got["x_i"])
            n, nt, _ = self.expr(got["n_samples"])
            if norm(st) != "ListNat" or norm(xt) != "Inst" or norm(nt) not in ("Nat", "IntLit"):
                self.err(e, "imputer call on something other than (feature subset, an instance, a count)")
            return f"(← imputeMx {x} {sv} {n})", "ListDictK", True
        if name == "np.random.permutation" and len(e.args) == 1:
            n, nt, _ = self.expr(e.args[0])
            self.uses_perm = True
            return f"(permutation {self.need_world()}.calls {self.asNat(n, nt, e)})", "ListNat", False
        if name == "len" and len(e.args) == 1:
            v, t, eff = self.expr(e.args[0], allow_eff)
            if norm(t) in ("ListInst", "ListY"):
                return f"{v}.length", "Nat", eff
        if name in ("self.explain_many", "self.explain_many_original", "self._storage.update", "self._storage.get_data"):
            self.err(e, "unsupported call")
        return super().call(e, allow_eff)

    def dictcomp(self, e):
        g = e.generators[0] if len(e.generators) == 1 else None
        if g is not None and not g.ifs and isinstance(g.iter, ast.Call) and isinstance(g.iter.func, ast.Attribute) \
                and g.iter.func.attr == "items" and not g.iter.args and isinstance(g.target, ast.Tuple) and len(g.target.elts) == 2 \
                and all(isinstance(x, ast.Name) for x in g.target.elts):
            d, dt, _ = self.expr(g.iter.func.value, allow_eff=False)
            if norm(dt) != "DictK":
                self.err(e, "items() of something that is not a dict of numbers")
            saved = dict(self.env)
            self.env[g.target.elts[0].id] = Var("kv.1", "Nat")
            self.env[g.target.elts[1].id] = Var("kv.2", "K")
            k, kt, _ = self.expr(e.key, allow_eff=False)
            v, vt, _ = self.expr(e.value, allow_eff=False)
            self.env = saved
            return f"(Dict.ofPairs ({d}.map (fun (kv : Nat × K) => ({self.asNat(k, kt, e)}, {self.asK(v, vt, e)}))))", "DictK", False
        return super().dictcomp(e)

    def assign(self, target, value, node, scope):
        if isinstance(target, ast.Attribute) and isinstance(target.value, ast.Name) and target.value.id == "self" \
                and target.attr == "importance_values":
            v, t, _ = self.expr(value)
            if norm(t) != "DictK":
                self.err(node, "self.importance_values is assigned something that is not a dict of numbers")
            return self.declare("self.importance_values", v, "DictK", node, scope)
        return super().assign(target, value, node, scope)

    def declare(self, name, value, ty, node, scope):
        lines = super().declare(name, value, ty, node, scope)
        if name == "self.importance_values":
            lines = [ln.replace("self.importance_values", "self_importance_values") for ln in lines]
            self.env[name].lean = self.env[name].lean.replace("self.importance_values", "self_importance_values")
        return lines

    def for_stmt(self, s, scope):
        it = s.iter
        if isinstance(it, ast.Call) and ast.unparse(it.func) == "tqdm" and it.args:
            it = it.args[0]          # a progress bar is the identity on what it iterates
        if isinstance(it, ast.Call) and ast.unparse(it.func) == "enumerate" and len(it.args) == 1 and isinstance(it.args[0], ast.Call) \
                and ast.unparse(it.args[0].func) == "zip" and len(it.args[0].args) == 2 and isinstance(s.target, ast.Tuple) \
                and len(s.target.elts) == 2 and isinstance(s.target.elts[0], ast.Name) and isinstance(s.target.elts[1], ast.Tuple) \
                and len(s.target.elts[1].elts) == 2 and all(isinstance(x, ast.Name) for x in s.target.elts[1].elts) and not s.orelse:
            start = "0"
            for kw in it.keywords:
                if kw.arg == "start":
                    sv, st, _ = self.expr(kw.value)
                    start = self.asNat(sv, st, s)
                else:
                    self.err(s, "unsupported enumerate argument")
            a, at, _ = self.expr(it.args[0].args[0], allow_eff=False)
            b, bt, _ = self.expr(it.args[0].args[1], allow_eff=False)
            if norm(at) != "ListInst" or norm(bt) != "ListY":
                self.err(s, "loop over something other than the zipped observations")
            nvar, xvar, yvar = s.target.elts[0].id, s.target.elts[1].elts[0].id, s.target.elts[1].elts[1].id
            saved = dict(self.env)
            self.env[nvar], self.env[xvar], self.env[yvar] = Var(nvar, "Nat"), Var(xvar, "Inst"), Var(yvar, "Y")
            self.in_loop += 1
            body = self.block(s.body)
            self.in_loop -= 1
            self.env = dict(saved)
            return [f"for (({xvar}, {yvar}), {nvar}) in ((List.zip {a} {b}).zipIdx {start}) do"] + ["  " + x for x in body]
        if isinstance(it, ast.Call) and isinstance(it.func, ast.Attribute) and it.func.attr == "items" and not it.args \
                and isinstance(s.target, ast.Tuple) and len(s.target.elts) == 2 and all(isinstance(x, ast.Name) for x in s.target.elts) \
                and not s.orelse:
            d, dt, _ = self.expr(it.func.value, allow_eff=False)
            if norm(dt) == "DictK":
                kvar, vvar = s.target.elts[0].id, s.target.elts[1].id
                saved = dict(self.env)
                self.env[kvar], self.env[vvar] = Var(kvar, "Nat"), Var(vvar, "K")
                self.in_loop += 1
                body = self.block(s.body)
                self.in_loop -= 1
                self.env = dict(saved)
                return [f"for ({kvar}, {vvar}) in {d} do"] + ["  " + x for x in body]
        return super().for_stmt(s, scope)

    def translate(self):
        fn = self.fn
        self.deferred_types = []
        args = [a.arg for a in fn.args.args[1:]] + [a.arg for a in fn.args.kwonlyargs]
        if args != list(BATCH_PARAMS):
            self.err(fn, f"signature of explain_many is {args}, expected {list(BATCH_PARAMS)}")
        lines = []
        for a in args:
            t = BATCH_PARAMS[a]
            if self.stores.get(a, 0) > 0:
                self.env[a] = Var(a, t, mut=True)
                lines.append(f"let mut {a} := {a}")
            else:
                self.env[a] = Var(a, t, mut=False)
        lines += self.block(fn.body, self.new_scope())
        text = "\n".join("  " + x for x in lines)
        for ph, ty in self.deferred_types:
            text = text.replace(ph, lean_ty(ty))
        return text


def translate_batch(src):
    cname = "BatchSage"
    fn, rel, owner = src.find_method(cname, "explain_many")
    if fn is None:
        raise Unsupported(f"{BATCH_FILES[cname]}: BatchSage.explain_many not found")
    f = BatchFn(src, cname, fn, rel)
    body = f.translate()
    hdefs = ""
    for (lname, _, hsig, hret, htext) in f.helpers.values():
        hdefs += ("def " + lname + " (O : Oracles K V Y) (feature_names : List Nat) (cfg_n_inner_samples : Nat)\n"
                  "    (permutation : Nat → Nat → List Nat) (imputeMx : Inst V → List Nat → Nat → M K (List (Dict K))) " + hsig +
                  f" : M K ({lean_ty(hret)}) := do\n{htext}\n\n")
    sig = hdefs + ("def BatchSage.explain_many (O : Oracles K V Y) (feature_names : List Nat) (cfg_n_inner_samples : Nat)\n"
           "    (permutation : Nat → Nat → List Nat) (imputeMx : Inst V → List Nat → Nat → M K (List (Dict K)))\n"
           "    (x_data : List (Inst V)) (y_data : List Y) (n_inner_samples : Option Nat) (verbose : Bool) : M K (Dict K) := do\n")
    sha = src.sha[cname]
    return HEADER.format(rels=BATCH_FILES[cname], sha=sha, cname=cname).replace("explain_one", "explain_many") + sig + body + "\n\nend Ixai.Gen\n", \
        [BATCH_FILES[cname]], sha


# ----------------------------------------------------------------------------------------------------------------
# BaseIncrementalFeatureImportance._normalize_importance_values (ixai/explainer/base.py): a pure static function; `do`-block over
# `Except String` (a `raise X(..)` is `throw "X"`).  Vocabulary: list(d.values()) -> d.map Prod.snd ; max / min / sum of a list of
# numbers -> maxL / minL / lsum ; `mode == 'delta'` -> decide (mode = "delta") with `mode : String` ; x == 0 on numbers -> decide (x = 0)
# ----------------------------------------------------------------------------------------------------------------
class NormFn(BatchFn):
    supports_helpers = True
    def expr(self, e, allow_eff=True):
        if isinstance(e, ast.Constant) and isinstance(e.value, str):
            return '"' + e.value.replace('\\', '\\\\').replace('"', '\\"') + '"', "Str", False
        if isinstance(e, ast.Constant) and isinstance(e.value, float) and e.value != int(e.value):
            self.err(e, "unsupported constant")
        return super().expr(e, allow_eff)

    def compare(self, e, allow_eff):
        if len(e.ops) == 1 and isinstance(e.ops[0], (ast.Eq, ast.NotEq)):
            a, at, _ = self.expr(e.left, allow_eff)
            b, bt, _ = self.expr(e.comparators[0], allow_eff)
            at, bt = norm(at), norm(bt)
            sym = "=" if isinstance(e.ops[0], ast.Eq) else "≠"
            if at == "Str" and bt == "Str":
                return f"decide ({a} {sym} {b})", "Bool", False
            if "K" in (at, bt) and at in ("K", "IntLit", "Nat") and bt in ("K", "IntLit", "Nat"):
                return f"decide ({self.asK(a, at, e)} {sym} {self.asK(b, bt, e)})", "Bool", False
        return super().compare(e, allow_eff)

    def call(self, e, allow_eff):
        name = ast.unparse(e.func)
        if name == "list" and len(e.args) == 1 and isinstance(e.args[0], ast.Call) and isinstance(e.args[0].func, ast.Attribute) \
                and e.args[0].func.attr == "values" and not e.args[0].args:
            d, dt, _ = self.expr(e.args[0].func.value, allow_eff)
            if norm(dt) == "DictK":
                return f"({d}.map Prod.snd)", "ListK", False
        zero_default = (len(e.keywords) == 1 and e.keywords[0].arg == "default" and isinstance(e.keywords[0].value, ast.Constant)
                        and type(e.keywords[0].value.value) in (int, float) and e.keywords[0].value.value == 0)
        if name in ("max", "min", "sum") and len(e.args) == 1 and (not e.keywords or (zero_default and name != "sum")):
            v, t, _ = self.expr(e.args[0], allow_eff)
            if norm(t) == "ListK":
                if name == "sum" or zero_default:     # maxL / minL of the empty list are 0: Python's `default=0`
                    return f"({ {'max': 'maxL', 'min': 'minL', 'sum': 'lsum'}[name] } {v})", "K", False
                if not allow_eff:
                    self.err(e, f"{name}() of a possibly empty list (raises ValueError) in a pure position")
                return f"(← { {'max': 'maxE', 'min': 'minE'}[name] } {v})", "K", True   # no default: ValueError on the empty list
        return super().call(e, allow_eff)

    def self_attr(self, e):
        self.err(e, "a static function does not read the explainer")

    def module_function(self, name):
        return getattr(self.src, "module_functions", {}).get(name)

    def helper_fixed_args(self, sub):
        return ""

    def stmt(self, s, scope):
        if isinstance(s, ast.Raise):
            exc = s.exc.func if isinstance(s.exc, ast.Call) else s.exc
            return [f'throw "{ast.unparse(exc) if exc is not None else "Exception"}"']
        return super().stmt(s, scope)

    @staticmethod
    def assigned_on_all_paths(stmts):
        out = Fn.assigned_on_all_paths(stmts)
        return out


def _terminates(stmts):
    return bool(stmts) and isinstance(stmts[-1], (ast.Raise, ast.Return))


def translate_normalize(src_repo):
    rel = "ixai/explainer/base.py"
    text = open(os.path.join(src_repo, rel)).read()
    tree = ast.parse(text, filename=rel)
    cls = [n for n in tree.body if isinstance(n, ast.ClassDef) and n.name == "BaseIncrementalFeatureImportance"]
    fns = [n for n in (cls[0].body if cls else []) if isinstance(n, ast.FunctionDef) and n.name == "_normalize_importance_values"]
    if len(fns) != 1:
        raise Unsupported(f"{rel}: _normalize_importance_values not found")
    fn = fns[0]
    params = [a.arg for a in fn.args.args]
    if params != ["importance_values", "mode"]:
        raise Unsupported(f"{rel}:{fn.lineno}: signature of _normalize_importance_values is {params}")

    class S_:
        pass
    src = S_()
    src.module_functions = {n.name: n for n in tree.body if isinstance(n, ast.FunctionDef)}
    statics = {n.name: n for n in cls[0].body if isinstance(n, ast.FunctionDef) and n.name != "_normalize_importance_values"
               and any(isinstance(d, ast.Name) and d.id == "staticmethod" for d in n.decorator_list)}
    src.find_method = lambda c, m: ((statics[m], rel, c) if m in statics else (None, None, None))
    src.find_property = lambda c, m: None
    f = NormFn(src, "BaseIncrementalFeatureImportance", fn, rel)
    f.helper_mode, f.ret_type = True, None
    f.deferred_types = []
    f.env["importance_values"] = Var("importance_values", "DictK")
    f.env["mode"] = Var("mode", "Str")
    body = f.block(fn.body, f.new_scope())
    if f.ret_type != "DictK":
        raise Unsupported(f"{rel}:{fn.lineno}: _normalize_importance_values returns {f.ret_type}")
    btxt = "\n".join("  " + x for x in body)
    for ph, ty in f.deferred_types:
        btxt = btxt.replace(ph, lean_ty(ty))
    sha = hashlib.sha256(text.encode()).hexdigest()[:16]
    head = (f"/-\n  GENERATED by tools/py2lean_eff.py from {rel} — do not edit.\n  sha256: {sha}\n"
            "  `_normalize_importance_values` statement by statement; a `raise` is a `throw` in `Except String`.\n-/\n"
            "import IxaiVerif.Model.Explainer\n\nnamespace Ixai.Gen\nopen Ixai\n\n"
            "variable {K : Type} [Add K] [Sub K] [Mul K] [Div K] [NatCast K] [OfNat K 0] [OfNat K 1] [RealOps K] [DecidableEq K] [LE K] [DecidableLE K]\n\n"
            )
    hdefs = ""
    for (lname, _, hsig, hret, htext) in f.helpers.values():
        hdefs += f"def {lname.replace('BaseIncrementalFeatureImportance.', 'normalize_helper_')} {hsig} : Except String ({lean_ty(hret)}) := do\n{htext}\n\n"
    main = "def normalize_importance_values (importance_values : Dict K) (mode : String) : Except String (Dict K) := do\n"
    btxt = btxt.replace("BaseIncrementalFeatureImportance.", "normalize_helper_")
    hdefs = hdefs.replace("(← BaseIncrementalFeatureImportance.", "(← normalize_helper_")
    return head + hdefs + main + btxt + "\n\nend Ixai.Gen\n", [rel], sha


# ----------------------------------------------------------------------------------------------------------------
# MultiValueTracker (ixai/utils/tracker/multi_value.py): methods over an explicit state record
#   structure MVGen K := (tracked_value : Dict (Tr K)) (tracked_keys : List Nat) (base_tracker : Tr K) (N : Nat)
# `self.f = e` -> self := {self with f := e}.  Vocabulary:
#   set(values.keys()) -> values.keys (a `for` over a set visits the elements in the order of the list it was built from)
#   try: self.tracked_value[k].update(v)  except KeyError: <body>   ->   match find? k with | some t => set k (t.update v) | none => <body>
#   self.tracked_value[k] = copy.deepcopy(self._base_tracker) -> Dict.set .. k base ; self.tracked_value[k].update(v) -> set k ((getD k base).update v)
#   self._tracked_keys.add(k) -> keys ++ [k] unless present ; A - B on key sets -> A.filter (· ∉ B) ; self.get() / self() -> __call__
#   len(self._tracked_keys) ; sum(d.values()) -> lsum (d.map Prod.snd) ; {k: e for k in keys} / {k: e for k, v in d.items()} / d.keys()
# ----------------------------------------------------------------------------------------------------------------
MV_FILE = "ixai/utils/tracker/multi_value.py"
MV_FIELDS = {"tracked_value": "DictTr", "_tracked_keys": "ListNat", "_base_tracker": "Tr", "N": "Nat"}
MV_LEAN_FIELD = {"tracked_value": "tracked_value", "_tracked_keys": "tracked_keys", "_base_tracker": "base_tracker", "N": "N"}
MV_METHODS = {"update": (["values"], None), "__call__": ([], "DictK"), "get_normalized": ([], "DictK")}


class MeanFn(NormFn):
    """`_get_mean_model_output` (ixai/explainer/base.py): additionally `{l for o in outs for l in o}` (a set of labels; iterated in order of
    first appearance), `o.get(l, 0)`, `sum([...])` of a list of numbers"""
    supports_helpers = False

    def expr(self, e, allow_eff=True):
        if isinstance(e, ast.SetComp) and len(e.generators) == 2 and all(not g.ifs and isinstance(g.target, ast.Name) for g in e.generators) \
                and isinstance(e.elt, ast.Name) and e.elt.id == e.generators[1].target.id \
                and isinstance(e.generators[1].iter, ast.Name) and e.generators[1].iter.id == e.generators[0].target.id:
            outs, ot, _ = self.expr(e.generators[0].iter, allow_eff=False)
            if norm(ot) != "ListDictK":
                self.err(e, "set comprehension over something other than a list of outputs")
            return (f"({outs}.foldl (fun acc_ o_ => o_.keys.foldl (fun acc_ k_ => if acc_.contains k_ then acc_ else acc_ ++ [k_]) acc_) [])",
                    "ListNat", False)
        return super().expr(e, allow_eff)

    def call(self, e, allow_eff):
        f = e.func
        if isinstance(f, ast.Attribute) and f.attr == "get" and len(e.args) == 2 and not e.keywords:
            d, dt, _ = self.expr(f.value, allow_eff)
            if norm(dt) == "DictK":
                k, kt, _ = self.expr(e.args[0], allow_eff)
                dv, dvt, _ = self.expr(e.args[1], allow_eff)
                return f"({d}.getD {self.asNat(k, kt, e)} {self.asK(dv, dvt, e)})", "K", False
        if ast.unparse(f) == "sum" and len(e.args) == 1 and not e.keywords:
            v, t, _ = self.expr(e.args[0], allow_eff)
            if norm(t) == "ListK":
                return f"(lsum {v})", "K", False
        if ast.unparse(f) == "len" and len(e.args) == 1:
            v, t, _ = self.expr(e.args[0], allow_eff)
            if norm(t) in ("ListDictK", "ListNat", "ListK"):
                return f"({v}).length", "Nat", False
        return super().call(e, allow_eff)


def translate_mean_output(repo):
    rel = "ixai/explainer/base.py"
    text = open(os.path.join(repo, rel)).read()
    tree = ast.parse(text, filename=rel)
    fns = [n for n in tree.body if isinstance(n, ast.FunctionDef) and n.name == "_get_mean_model_output"]
    if len(fns) != 1:
        raise Unsupported(f"{rel}: _get_mean_model_output not found")
    fn = fns[0]
    if [a.arg for a in fn.args.args] != ["model_outputs"]:
        raise Unsupported(f"{rel}:{fn.lineno}: signature of _get_mean_model_output changed")

    class S_:
        pass
    src = S_()
    src.find_method = lambda c, m: (None, None, None)
    src.find_property = lambda c, m: None
    f = MeanFn(src, "base", fn, rel)
    f.helper_mode, f.ret_type, f.deferred_types = True, None, []
    f.env["model_outputs"] = Var("model_outputs", "ListDictK")
    body = f.block(fn.body, f.new_scope())
    if f.ret_type != "DictK":
        raise Unsupported(f"{rel}:{fn.lineno}: _get_mean_model_output returns {f.ret_type}")
    btxt = "\n".join("  " + x for x in body)
    sha = hashlib.sha256(text.encode()).hexdigest()[:16]
    head = (f"/-\n  GENERATED by tools/py2lean_eff.py from {rel} — do not edit.\n  sha256: {sha}\n"
            "  `_get_mean_model_output` statement by statement.\n-/\n"
            "import IxaiVerif.Model.Dict\n\nnamespace Ixai.Gen\nopen Ixai\n\n"
            "variable {K : Type} [Add K] [Div K] [NatCast K] [OfNat K 0]\n\n"
            "def get_mean_model_output (model_outputs : List (Dict K)) : Dict K := Id.run do\n")
    return head + btxt + "\n\nend Ixai.Gen\n", [rel], sha


class MVFn(NormFn):
    supports_helpers = False
    def self_attr(self, e):
        if e.attr in MV_FIELDS:
            return f"self.{MV_LEAN_FIELD[e.attr]}", MV_FIELDS[e.attr], False
        self.err(e, "unknown attribute of the tracker")

    def expr(self, e, allow_eff=True):
        if isinstance(e, ast.Attribute) and isinstance(e.value, ast.Name) and e.value.id == "self":
            return self.self_attr(e)
        if isinstance(e, ast.Subscript):
            base, bt, _ = self.expr(e.value, allow_eff)
            if norm(bt) == "DictTr":
                k, kt, _ = self.expr(e.slice, allow_eff)
                return f"(({base}).getD {self.asNat(k, kt, e)} self.base_tracker)", "Tr", False
        if isinstance(e, ast.BinOp) and isinstance(e.op, ast.Sub):
            a, at, _ = self.expr(e.left, allow_eff)
            b, bt, _ = self.expr(e.right, allow_eff)
            if norm(at) == "ListNat" and norm(bt) == "ListNat":
                return f"({a}.filter (fun k_ => !({b}).contains k_))", "ListNat", False
        if isinstance(e, ast.Constant) and isinstance(e.value, float) and e.value == int(e.value):
            return str(int(e.value)), "IntLit", False
        return super().expr(e, allow_eff)

    def call(self, e, allow_eff):
        f = e.func
        name = ast.unparse(f)
        if name in ("self.get", "self", "self.__call__") and not e.args:
            return "(MultiValueTracker.__call__ self)", "DictK", False
        if name == "set" and len(e.args) == 1 and isinstance(e.args[0], ast.Call) and isinstance(e.args[0].func, ast.Attribute) \
                and e.args[0].func.attr == "keys" and not e.args[0].args:
            d, dt, _ = self.expr(e.args[0].func.value, allow_eff)
            if norm(dt) in ("DictK", "DictTr"):
                return f"({d}).keys", "ListNat", False
        if isinstance(f, ast.Attribute) and f.attr == "keys" and not e.args:
            d, dt, _ = self.expr(f.value, allow_eff)
            if norm(dt) in ("DictK", "DictTr"):
                return f"({d}).keys", "ListNat", False
        if name == "len" and len(e.args) == 1:
            v, t, _ = self.expr(e.args[0], allow_eff)
            if norm(t) in ("ListNat", "DictK", "DictTr"):
                return f"({v}).length", "Nat", False
        if name == "sum" and len(e.args) == 1 and isinstance(e.args[0], ast.Call) and isinstance(e.args[0].func, ast.Attribute) \
                and e.args[0].func.attr == "values" and not e.args[0].args:
            d, dt, _ = self.expr(e.args[0].func.value, allow_eff)
            if norm(dt) == "DictK":
                return f"(lsum (({d}).map Prod.snd))", "K", False
        if name in ("copy.deepcopy", "copy.copy") and len(e.args) == 1:
            return self.expr(e.args[0], allow_eff)
        if isinstance(f, ast.Attribute) and f.attr == "get" and not e.args:
            v, t, _ = self.expr(f.value, allow_eff)
            if norm(t) == "Tr":
                return f"({v}).get", "K", False
        return super().call(e, allow_eff)

    def compare(self, e, allow_eff):
        if len(e.ops) == 1 and isinstance(e.ops[0], (ast.LtE, ast.Lt, ast.GtE, ast.Gt)):
            a, at, _ = self.expr(e.left, allow_eff)
            b, bt, _ = self.expr(e.comparators[0], allow_eff)
            if norm(at) in ("Nat", "IntLit") and norm(bt) in ("Nat", "IntLit"):
                sym = {ast.Lt: "<", ast.LtE: "≤", ast.Gt: ">", ast.GtE: "≥"}[type(e.ops[0])]
                return f"decide ({a} {sym} {b})", "Bool", False
        return super().compare(e, allow_eff)

    def dictcomp(self, e):
        g = e.generators[0] if len(e.generators) == 1 else None
        if g is not None and not g.ifs and isinstance(g.target, ast.Name):
            it, itt, _ = self.expr(g.iter, allow_eff=False)
            if norm(itt) == "ListNat":
                saved = dict(self.env)
                self.env[g.target.id] = Var(g.target.id, "Nat")
                k, kt, _ = self.expr(e.key, allow_eff=False)
                v, vt, _ = self.expr(e.value, allow_eff=False)
                self.env = saved
                return f"(Dict.ofPairs ({it}.map (fun {g.target.id} => ({self.asNat(k, kt, e)}, {self.asK(v, vt, e)}))))", "DictK", False
        return super().dictcomp(e)

    def set_field(self, attr, value):
        return [f"self := {{ self with {MV_LEAN_FIELD[attr]} := {value} }}"]

    def assign(self, target, value, node, scope):
        if isinstance(target, ast.Attribute) and isinstance(target.value, ast.Name) and target.value.id == "self" and target.attr in MV_FIELDS:
            v, t, _ = self.expr(value)
            want = MV_FIELDS[target.attr]
            if norm(t) != want and not (want == "Nat" and norm(t) == "IntLit"):
                self.err(node, f"field {target.attr} : {want} is assigned a value of type {norm(t)}")
            return self.set_field(target.attr, v)
        if isinstance(target, ast.Subscript) and isinstance(target.value, ast.Attribute) and isinstance(target.value.value, ast.Name) \
                and target.value.value.id == "self" and target.value.attr == "tracked_value":
            k, kt, _ = self.expr(target.slice)
            v, t, _ = self.expr(value)
            if norm(t) != "Tr":
                self.err(node, "a tracker is expected")
            return self.set_field("tracked_value", f"Dict.set self.tracked_value {self.asNat(k, kt, node)} {v}")
        return super().assign(target, value, node, scope)

    def tracker_update(self, call):
        """`self.tracked_value[k].update(v)` -> (k, v) as Lean terms, or None"""
        f = call.func
        if isinstance(f, ast.Attribute) and f.attr == "update" and len(call.args) == 1 and isinstance(f.value, ast.Subscript) \
                and ast.unparse(f.value.value) == "self.tracked_value":
            k, kt, _ = self.expr(f.value.slice)
            v, vt, _ = self.expr(call.args[0])
            return self.asNat(k, kt, call), self.asK(v, vt, call)
        return None

    def call_stmt(self, call, node, scope):
        ku = self.tracker_update(call)
        if ku is not None:
            k, v = ku
            return self.set_field("tracked_value", f"Dict.set self.tracked_value {k} ((self.tracked_value.getD {k} self.base_tracker).update {v})")
        f = call.func
        if isinstance(f, ast.Attribute) and f.attr == "add" and len(call.args) == 1 and ast.unparse(f.value) == "self._tracked_keys":
            k, kt, _ = self.expr(call.args[0])
            k = self.asNat(k, kt, node)
            return self.set_field("_tracked_keys", f"(if self.tracked_keys.contains {k} then self.tracked_keys else self.tracked_keys ++ [{k}])")
        return super().call_stmt(call, node, scope)

    def stmt(self, s, scope):
        if isinstance(s, ast.Try):
            # try: self.tracked_value[k].update(v)   except KeyError: <body>
            if len(s.body) == 1 and isinstance(s.body[0], ast.Expr) and isinstance(s.body[0].value, ast.Call) and len(s.handlers) == 1 \
                    and s.handlers[0].type is not None and ast.unparse(s.handlers[0].type) == "KeyError" and s.handlers[0].name is None \
                    and not s.orelse and not s.finalbody:
                ku = self.tracker_update(s.body[0].value)
                if ku is not None:
                    k, v = ku
                    tn = self.fresh("t")
                    lines = [f"match self.tracked_value.find? {k} with", f"| some {tn} =>",
                             f"  self := {{ self with tracked_value := Dict.set self.tracked_value {k} ({tn}.update {v}) }}", "| none =>"]
                    lines += ["  " + x for x in self.block(s.handlers[0].body)]
                    return lines
            self.err(s, "unsupported try statement")
        if isinstance(s, ast.AugAssign) and isinstance(s.target, ast.Attribute) and ast.unparse(s.target) == "self.N" \
                and isinstance(s.op, ast.Add):
            v, t, _ = self.expr(s.value)
            return self.set_field("N", f"(self.N + {self.asNat(v, t, s)})")
        if isinstance(s, ast.Return) and isinstance(s.value, ast.Name) and s.value.id == "self":
            return ["return self"]
        return super().stmt(s, scope)


def translate_mv(repo):
    text = open(os.path.join(repo, MV_FILE)).read()
    tree = ast.parse(text, filename=MV_FILE)
    cls = [n for n in tree.body if isinstance(n, ast.ClassDef) and n.name == "MultiValueTracker"]
    if len(cls) != 1:
        raise Unsupported(f"{MV_FILE}: class MultiValueTracker not found")
    methods = {n.name: n for n in cls[0].body if isinstance(n, ast.FunctionDef)}

    class S_:
        pass
    src = S_()
    src.find_method = lambda c, m: (None, None, None)
    src.find_property = lambda c, m: None
    out = []
    for m in ("__call__", "get_normalized", "update"):
        if m not in methods:
            raise Unsupported(f"{MV_FILE}: MultiValueTracker.{m} not found")
        fn = methods[m]
        params, ret = MV_METHODS[m]
        got = [a.arg for a in fn.args.args[1:]]
        if got != params:
            raise Unsupported(f"{MV_FILE}:{fn.lineno}: signature of {m} is {got}, expected {params}")
        f = MVFn(src, "MultiValueTracker", fn, MV_FILE)
        f.helper_mode, f.ret_type, f.deferred_types = True, None, []
        for p_ in params:
            f.env[p_] = Var(p_, "DictK")
        body = f.block(fn.body, f.new_scope())
        btxt = "\n".join("  " + x for x in body)
        for ph, ty in f.deferred_types:
            btxt = btxt.replace(ph, lean_ty(ty))
        if ret is None:
            out.append(f"def MultiValueTracker.{m} (self : MVGen K) (values : Dict K) : MVGen K := Id.run do\n  let mut self := self\n{btxt}\n")
        else:
            if f.ret_type != ret:
                raise Unsupported(f"{MV_FILE}:{fn.lineno}: {m} returns {f.ret_type}")
            out.append(f"def MultiValueTracker.{m} (self : MVGen K) : Dict K := Id.run do\n{btxt}\n")
    sha = hashlib.sha256(text.encode()).hexdigest()[:16]
    head = (f"/-\n  GENERATED by tools/py2lean_eff.py from {MV_FILE} — do not edit.\n  sha256: {sha}\n"
            "  `MultiValueTracker` statement by statement over an explicit state record.\n-/\n"
            "import IxaiVerif.Model.Tr\n\nnamespace Ixai.Gen\nopen Ixai\n\n"
            "variable {K : Type} [Add K] [Sub K] [Mul K] [Div K] [NatCast K] [OfNat K 0] [OfNat K 1] [RealOps K] [DecidableEq K]\n\n"
            "/-- the attributes of a MultiValueTracker: `tracked_value`, `_tracked_keys`, `_base_tracker`, `N` -/\n"
            "structure MVGen (K : Type) where\n  tracked_value : Dict (Tr K)\n  tracked_keys : List Nat\n  base_tracker : Tr K\n  N : Nat\n\n")
    return head + "\n".join(out) + "\nend Ixai.Gen\n", [MV_FILE], sha


# ----------------------------------------------------------------------------------------------------------------
# TreeStorage reservoir bookkeeping (ixai/storage/tree_storage.py: `_update_data_reservoirs`, `_delete_outdated_reservoirs`) for ONE
# feature, over the tree oracle of Model/Tree.lean: river's tree is not modelled, so
#   self._storage_x[f]._root                    -> the oracle handle (unit)
#   self.get_path_through_tree(root, x_i)        -> parameter `leaf`       (the id of the routed leaf)
#   get_all_tree_paths(root)                     -> parameter `allLeaves`  (the ids of all current leaves)
#   self.data_reservoirs[f] (also through a local alias) -> the mutable state `rs : Reservoirs K P`
#   k in d / k not in d -> (findR d k).isSome ; d[k] = GeometricReservoirStorage(size=self._leaf_reservoir_length, store_targets=False,
#   constant_probability=1.0) -> append/overwrite with the GENERATED kernel's init ; list(d.keys()) -> d.map Prod.fst ;
#   del d[k] -> filter ; d[k].update(x) -> the generated kernel's update, threading the draw source (a missing key: no insertion)
# Output: `do`-blocks over `StateM (Rnd K)`.
# ----------------------------------------------------------------------------------------------------------------
TREE_FILE = "ixai/storage/tree_storage.py"


class TreeFn(Fn):
    supports_helpers = False

    def is_state(self, e):
        if isinstance(e, ast.Subscript) and ast.unparse(e.value) == "self.data_reservoirs" and isinstance(e.slice, ast.Name) \
                and e.slice.id == "feature_name":
            return True
        return isinstance(e, ast.Name) and e.id in self.env and self.env[e.id].kind == "alias"

    def expr(self, e, allow_eff=True):
        if self.is_state(e):
            return "rs", "Rs", False
        if isinstance(e, ast.Attribute) and ast.unparse(e) == "self._leaf_reservoir_length":
            return "L", "Nat", False
        if isinstance(e, ast.Attribute) and e.attr == "_root" and ast.unparse(e.value) == "self._storage_x[feature_name]":
            return "()", "Root", False
        if isinstance(e, ast.Compare) and len(e.ops) == 1 and isinstance(e.ops[0], (ast.In, ast.NotIn)):
            k, kt, _ = self.expr(e.left)
            c, ct, _ = self.expr(e.comparators[0])
            neg = "!" if isinstance(e.ops[0], ast.NotIn) else ""
            if norm(ct) == "Rs" and norm(kt) == "Nat":
                return f"({neg}(findR {c} {k}).isSome)", "Bool", False
            if norm(ct) == "ListNat" and norm(kt) == "Nat":
                return f"({neg}({c}).contains {k})", "Bool", False
            self.err(e, "membership test on an unsupported container")
        return super().expr(e, allow_eff)

    def call(self, e, allow_eff):
        name = ast.unparse(e.func)
        if name == "self.get_path_through_tree" and len(e.args) == 2:
            r, rt, _ = self.expr(e.args[0])
            if norm(rt) != "Root" or ast.unparse(e.args[1]) != "x_i":
                self.err(e, "the routed leaf of something other than (this feature's root, the reduced data point)")
            return "leaf", "Nat", False
        if name == "get_all_tree_paths" and len(e.args) == 1:
            r, rt, _ = self.expr(e.args[0])
            if norm(rt) != "Root":
                self.err(e, "leaves of something other than this feature's tree")
            return "allLeaves", "ListNat", False
        if name == "list" and len(e.args) == 1 and isinstance(e.args[0], ast.Call) and isinstance(e.args[0].func, ast.Attribute) \
                and e.args[0].func.attr == "keys" and self.is_state(e.args[0].func.value):
            return "(rs.map Prod.fst)", "ListNat", False
        if name == "GeometricReservoirStorage":
            kw = {k.arg: ast.unparse(k.value) for k in e.keywords}
            if e.args or kw != {"size": "self._leaf_reservoir_length", "store_targets": "False", "constant_probability": "1.0"}:
                self.err(e, "a leaf reservoir with other than (size = leaf_reservoir_length, no targets, probability 1)")
            return "(GeometricReservoirStorage.init L (some (1 : K)) false)", "Res", False
        self.err(e, "unsupported call")

    def assign(self, target, value, node, scope):
        if isinstance(target, ast.Name) and self.is_state(value):
            self.env[target.id] = Var(None, "Rs", kind="alias", field="rs")
            scope["declared"].append(target.id)
            return []
        if isinstance(target, ast.Subscript) and self.is_state(target.value):
            k, kt, _ = self.expr(target.slice)
            v, vt, _ = self.expr(value)
            if norm(kt) != "Nat" or norm(vt) != "Res":
                self.err(node, "unsupported item assignment on the reservoirs")
            return [f"rs := if (findR rs {k}).isSome then rs.map (fun e_ => if e_.1 == {k} then (e_.1, {v}) else e_) else rs ++ [({k}, {v})]"]
        if isinstance(target, ast.Name):
            v, t, _ = self.expr(value)
            t = norm(t)
            if t in ("Nat", "ListNat", "Root", "Bool"):
                self.env[target.id] = Var(target.id, t)
                scope["declared"].append(target.id)
                return [f"let {target.id} := {v}"]
        self.err(node, "unsupported assignment")

    def stmt(self, s, scope):
        if isinstance(s, ast.Delete) and len(s.targets) == 1 and isinstance(s.targets[0], ast.Subscript) and self.is_state(s.targets[0].value):
            k, kt, _ = self.expr(s.targets[0].slice)
            return [f"rs := rs.filter (fun e_ => !(e_.1 == {self.asNat(k, kt, s)}))"]
        if isinstance(s, ast.Expr) and isinstance(s.value, ast.Call):
            c = s.value
            f = c.func
            if isinstance(f, ast.Attribute) and f.attr == "update" and isinstance(f.value, ast.Subscript) and self.is_state(f.value.value) \
                    and len(c.args) == 1 and ast.unparse(c.args[0]) == "x" and not c.keywords:
                k, kt, _ = self.expr(f.value.slice)
                k = self.asNat(k, kt, s)
                return [f"match findR rs {k} with", "| none => pure ()", "| some r_ =>",
                        "  let (r_new, rnd_new) := r_.update x () (← get)", "  set rnd_new",
                        f"  rs := rs.map (fun e_ => if e_.1 == {k} then (e_.1, r_new) else e_)"]
            if ast.unparse(f) == "self._delete_outdated_reservoirs" and len(c.args) == 2 and ast.unparse(c.args[0]) == "feature_name":
                r, rt, _ = self.expr(c.args[1])
                if norm(rt) != "Root":
                    self.err(s, "clean-up for something other than this feature's tree")
                return ["rs := TreeStorage._delete_outdated_reservoirs allLeaves rs"]
            self.err(s, "unsupported expression statement")
        if isinstance(s, (ast.If, ast.For)) or (isinstance(s, ast.Expr) and isinstance(s.value, ast.Constant)) or isinstance(s, ast.Assign):
            return super().stmt(s, scope)
        self.err(s, "unsupported statement")

    def with_world(self, build):
        return build()


def translate_tree(repo):
    text = open(os.path.join(repo, TREE_FILE)).read()
    tree = ast.parse(text, filename=TREE_FILE)
    cls = [n for n in tree.body if isinstance(n, ast.ClassDef) and n.name == "TreeStorage"]
    if len(cls) != 1:
        raise Unsupported(f"{TREE_FILE}: class TreeStorage not found")
    methods = {n.name: n for n in cls[0].body if isinstance(n, ast.FunctionDef)}

    class S_:
        pass
    src = S_()
    src.find_method = lambda c, m: (None, None, None)
    src.find_property = lambda c, m: None
    out = []
    for m, params in (("_delete_outdated_reservoirs", ["feature_name", "root_node"]), ("_update_data_reservoirs", ["feature_name", "x_i", "x"])):
        if m not in methods:
            raise Unsupported(f"{TREE_FILE}: TreeStorage.{m} not found")
        fn = methods[m]
        got = [a.arg for a in fn.args.args[1:]]
        if got != params:
            raise Unsupported(f"{TREE_FILE}:{fn.lineno}: signature of {m} is {got}, expected {params}")
        f = TreeFn(src, "TreeStorage", fn, TREE_FILE)
        f.deferred_types = []
        if "root_node" in params:
            f.env["root_node"] = Var("()", "Root")
        body = f.block(fn.body, f.new_scope())
        btxt = "\n".join("  " + x for x in body)
        if m == "_delete_outdated_reservoirs":
            out.append("def TreeStorage._delete_outdated_reservoirs {P : Type} (allLeaves : List Nat) (rs : Reservoirs K P) : Reservoirs K P := Id.run do\n"
                       f"  let mut rs := rs\n{btxt}\n  return rs\n")
        else:
            out.append("def TreeStorage._update_data_reservoirs {P : Type} (L : Nat) (leaf : Nat) (allLeaves : List Nat) (x : P) (rs : Reservoirs K P) :\n"
                       f"    StateM (Rnd K) (Reservoirs K P) := do\n  let mut rs := rs\n{btxt}\n  return rs\n")
    sha = hashlib.sha256(text.encode()).hexdigest()[:16]
    head = (f"/-\n  GENERATED by tools/py2lean_eff.py from {TREE_FILE} — do not edit.\n  sha256: {sha}\n"
            "  The reservoir bookkeeping of TreeStorage for one feature, statement by statement, over the tree oracle (routed leaf, all leaves).\n-/\n"
            "import IxaiVerif.Model.Tree\n\nnamespace Ixai.Gen\nopen Ixai Ixai.Tree\n\n"
            "variable {K : Type} [Add K] [Sub K] [Mul K] [Div K] [NatCast K] [OfNat K 0] [OfNat K 1] [LE K] [DecidableLE K]\n\n")
    return head + "\n".join(out) + "\nend Ixai.Gen\n", [TREE_FILE], sha


# ----------------------------------------------------------------------------------------------------------------
# IntervalSage.explain_one (ixai/explainer/sage/interval.py): `do`-block over `M K` with the explainer's own state as an explicit record
# `IntervalState K V Y` (Model/Explainer.lean: storage = the GENERATED IntervalStorage kernel, seen, values):
#   self._storage.update(x=x_i, y=y_i) -> st := {st with storage := st.storage.update x_i y_i}
#   self.seen_samples -> st.seen ; self.interval_length -> interval_length ; self.importance_values -> st.values
#   x_data, y_data = self._storage.get_data() -> st.storage.storage_x / storage_y
#   super().explain_many(x_data=.., y_data=.., n_inner_samples=.., verbose=..) -> the GENERATED BatchSage.explain_many; its result becomes st.values
# ----------------------------------------------------------------------------------------------------------------
INTERVAL_FILE = "ixai/explainer/sage/interval.py"
INTERVAL_PARAMS = {"x_i": "Inst", "y_i": "Y", "n_inner_samples": ("Opt", "Nat"), "update_storage": "Bool", "force_explain": "Bool", "verbose": "Bool"}


class IntervalFn(BatchFn):
    supports_helpers = False

    def self_attr(self, e):
        if e.attr == "seen_samples":
            return "st.seen", "Nat", False
        if e.attr == "interval_length":
            return "interval_length", "Nat", False
        if e.attr == "importance_values":
            return "st.values", "DictK", False
        self.err(e, "unknown attribute of the explainer")

    def expr(self, e, allow_eff=True):
        if isinstance(e, ast.BinOp) and isinstance(e.op, ast.Mod):
            a, at, _ = self.expr(e.left, allow_eff)
            b, bt, _ = self.expr(e.right, allow_eff)
            if norm(at) in ("Nat", "IntLit") and norm(bt) in ("Nat", "IntLit"):
                return f"({a} % {b})", "Nat", False
        return super().expr(e, allow_eff)

    def call(self, e, allow_eff):
        name = ast.unparse(e.func)
        if name == "self._storage.get_data" and not e.args and not e.keywords:
            return "(st.storage.storage_x, st.storage.storage_y)", ("Tup", ["ListInst", "ListY"]), False
        if name in ("super().explain_many", "BatchSage.explain_many", "super(IntervalSage, self).explain_many"):
            if not allow_eff:
                self.err(e, "callback inside a pure context")
            got = self.kwargs(e, ["x_data", "y_data", "n_inner_samples", "verbose"], e)
            if set(got) != {"x_data", "y_data", "n_inner_samples", "verbose"}:
                self.err(e, "explain_many without explicit x_data / y_data / n_inner_samples / verbose")
            xs, xt, _ = self.expr(got["x_data"])
            ys, yt, _ = self.expr(got["y_data"])
            n, nt, _ = self.expr(got["n_inner_samples"])
            vb, vt, _ = self.expr(got["verbose"])
            if norm(xt) != "ListInst" or norm(yt) != "ListY" or norm(vt) != "Bool" or not (isinstance(norm(nt), tuple) and norm(nt)[0] == "Opt"):
                self.err(e, "explain_many on something other than (stored instances, stored targets, optional count, flag)")
            return f"(← BatchSage.explain_many O feature_names cfg_n_inner_samples permutation imputeMx {xs} {ys} {n} {vb})", "DictK", True
        return super().call(e, allow_eff)

    def stmt(self, s, scope):
        if isinstance(s, ast.Expr) and isinstance(s.value, ast.Call):
            c = s.value
            name = ast.unparse(c.func)
            if name == "self._storage.update":
                got = self.kwargs(c, ["x", "y"], s)
                if [ast.unparse(got.get(k)) if got.get(k) is not None else None for k in ("x", "y")] != ["x_i", "y_i"]:
                    self.err(s, "the storage is updated with something other than the explained observation")
                return ["st := { st with storage := st.storage.update x_i y_i }"]
            if name.endswith("explain_many"):
                v, t, _ = self.expr(c)
                return [f"st := {{ st with values := {v} }}"]
        if isinstance(s, ast.AugAssign) and ast.unparse(s.target) == "self.seen_samples" and isinstance(s.op, ast.Add):
            v, t, _ = self.expr(s.value)
            return [f"st := {{ st with seen := (st.seen + {self.asNat(v, t, s)}) }}"]
        if isinstance(s, ast.Assign) and len(s.targets) == 1 and ast.unparse(s.targets[0]) == "self.seen_samples":
            v, t, _ = self.expr(s.value)
            return [f"st := {{ st with seen := {self.asNat(v, t, s)} }}"]
        if isinstance(s, ast.Return) and s.value is not None:
            v, t, _ = self.expr(s.value)
            if norm(t) != "DictK":
                self.err(s, "explain_one returns something other than the importance values")
            return [f"return ({v}, st)"]
        return super().stmt(s, scope)

    def with_world(self, build):
        return build()


def translate_interval(repo):
    text = open(os.path.join(repo, INTERVAL_FILE)).read()
    tree = ast.parse(text, filename=INTERVAL_FILE)
    cls = [n for n in tree.body if isinstance(n, ast.ClassDef) and n.name == "IntervalSage"]
    fns = [n for n in (cls[0].body if cls else []) if isinstance(n, ast.FunctionDef) and n.name == "explain_one"]
    if len(fns) != 1:
        raise Unsupported(f"{INTERVAL_FILE}: IntervalSage.explain_one not found")
    fn = fns[0]
    args = [a.arg for a in fn.args.args[1:]] + [a.arg for a in fn.args.kwonlyargs]
    if args != list(INTERVAL_PARAMS):
        raise Unsupported(f"{INTERVAL_FILE}:{fn.lineno}: signature of explain_one is {args}")

    class S_:
        pass
    src = S_()
    src.find_method = lambda c, m: (None, None, None)
    src.find_property = lambda c, m: None
    f = IntervalFn(src, "IntervalSage", fn, INTERVAL_FILE)
    f.deferred_types = []
    for a in args:
        f.env[a] = Var(a, INTERVAL_PARAMS[a])
    body = f.block(fn.body, f.new_scope())
    btxt = "\n".join("  " + x for x in body)
    for ph, ty in f.deferred_types:
        btxt = btxt.replace(ph, lean_ty(ty))
    sha = hashlib.sha256(text.encode()).hexdigest()[:16]
    head = (f"/-\n  GENERATED by tools/py2lean_eff.py from {INTERVAL_FILE} — do not edit.\n  sha256: {sha}\n"
            "  `IntervalSage.explain_one` statement by statement; the explainer's own state is the explicit record `IntervalState`.\n-/\n"
            "import IxaiVerif.Gen.BatchSage\n\nnamespace Ixai.Gen\nopen Ixai\n\n"
            "variable {K : Type} [Add K] [Sub K] [Mul K] [Div K] [NatCast K] [OfNat K 0] [OfNat K 1] [RealOps K] [DecidableEq K]\n"
            "variable {V Y : Type}\n\n"
            "def IntervalSage.explain_one (O : Oracles K V Y) (feature_names : List Nat) (cfg_n_inner_samples : Nat) (interval_length : Nat)\n"
            "    (permutation : Nat → Nat → List Nat) (imputeMx : Inst V → List Nat → Nat → M K (List (Dict K))) (st : IntervalState K V Y)\n"
            "    (x_i : Inst V) (y_i : Y) (n_inner_samples : Option Nat) (update_storage force_explain verbose : Bool) :\n"
            "    M K (Dict K × IntervalState K V Y) := do\n  let mut st := st\n")
    return head + btxt + "\n\nend Ixai.Gen\n", [INTERVAL_FILE], sha


# ----------------------------------------------------------------------------------------------------------------
# TreeImputer._sample_from_storages (ixai/imputer/tree_imputer.py), the `use_storage=True` path, over the tree oracle:
#   self.storage_object(feature_name) -> the oracle handle ; self.storage_object.data_reservoirs[feature_name] -> `rs`
#   self.storage_object.get_path_through_tree(model._root, x_i) -> parameter `leaf` ; random.randint(0, len(l) - 1) -> parameter `pick`
#   self._sample(feature_name=.., x_i=..) (the tree's own prediction) -> parameter `fallback`
#   try: <assignments> except KeyError: <assignment>  ->  an `Option` block: a dict lookup that misses (and, totalised, a list index out of
#   range) leaves the block, the handler's value is used
# ----------------------------------------------------------------------------------------------------------------
TREE_IMP_FILE = "ixai/imputer/tree_imputer.py"


def translate_tree_imputer(repo):
    text = open(os.path.join(repo, TREE_IMP_FILE)).read()
    tree = ast.parse(text, filename=TREE_IMP_FILE)
    cls = [n for n in tree.body if isinstance(n, ast.ClassDef) and n.name == "TreeImputer"]
    fns = [n for n in (cls[0].body if cls else []) if isinstance(n, ast.FunctionDef) and n.name == "_sample_from_storages"]
    if len(fns) != 1:
        raise Unsupported(f"{TREE_IMP_FILE}: TreeImputer._sample_from_storages not found")
    fn = fns[0]

    def err(node, msg):
        raise Unsupported(f"{TREE_IMP_FILE}:{getattr(node, 'lineno', '?')}: {msg}: `{ast.unparse(node)[:80]}`")
    if [a.arg for a in fn.args.args[1:]] != ["feature_name", "x_i", "n_samples"]:
        err(fn, "signature changed")
    env = {"feature_name": ("feature_name", "Nat"), "x_i": ("x_i", "Inst")}

    def expr(e):
        u = ast.unparse(e)
        if isinstance(e, ast.Name) and e.id in env:
            return env[e.id]
        if u == "self.storage_object(feature_name)":
            return "((), ())", "Handle2"
        if u == "self.storage_object.data_reservoirs[feature_name]":
            return "rs", "Rs"
        if isinstance(e, ast.Call) and ast.unparse(e.func) == "self.storage_object.get_path_through_tree" and len(e.args) == 2 \
                and ast.unparse(e.args[1]) == "x_i" and isinstance(e.args[0], ast.Attribute) and e.args[0].attr == "_root" \
                and expr(e.args[0].value)[1] == "Handle":
            return "leaf", "Nat"
        if isinstance(e, ast.Call) and ast.unparse(e.func) == "self._sample":
            kw = {k.arg: ast.unparse(k.value) for k in e.keywords}
            pos = [ast.unparse(a) for a in e.args]
            if (kw.get("feature_name", pos[0] if pos else None), kw.get("x_i", pos[1] if len(pos) > 1 else None)) != ("feature_name", "x_i"):
                err(e, "the fall-back is sampled for something other than (this feature, this instance)")
            return "fallback", "V"
        if isinstance(e, ast.Call) and ast.unparse(e.func) == "random.randint" and len(e.args) == 2 and ast.unparse(e.args[0]) == "0" \
                and isinstance(e.args[1], ast.BinOp) and isinstance(e.args[1].op, ast.Sub) and ast.unparse(e.args[1].right) == "1" \
                and isinstance(e.args[1].left, ast.Call) and ast.unparse(e.args[1].left.func) == "len" \
                and expr(e.args[1].left.args[0])[1] == "ListInst":
            return "pick", "Nat"
        if isinstance(e, ast.Call) and isinstance(e.func, ast.Attribute) and e.func.attr == "get_data" and not e.args \
                and expr(e.func.value)[1] == "Res":
            r = expr(e.func.value)[0]
            return f"({r}.storage_x, {r}.storage_y)", "Pair"
        if isinstance(e, ast.Subscript):
            b, bt = expr(e.value)
            k, kt = expr(e.slice)
            if bt == "Rs" and kt == "Nat":
                return f"(← findR {b} {k})", "Res"                 # may miss: KeyError
            if bt == "ListInst" and kt == "Nat":
                return f"(← {b}[{k}]?)", "Inst"                   # out of range: totalised as a miss
            if bt == "Inst" and kt == "Nat":
                return f"({b} {k})", "V"
        err(e, "unsupported expression")

    def assign(s, lines):
        if not (isinstance(s, ast.Assign) and len(s.targets) == 1):
            err(s, "unsupported statement")
        tg = s.targets[0]
        v, t = expr(s.value)
        if isinstance(tg, ast.Name):
            env[tg.id] = (tg.id, t)
            lines.append(f"let {tg.id} := {v}")
        elif isinstance(tg, ast.Tuple) and len(tg.elts) == 2 and all(isinstance(x, ast.Name) for x in tg.elts) and t in ("Handle2", "Pair"):
            a, b = tg.elts[0].id, tg.elts[1].id
            env[a] = (a, "Handle" if t == "Handle2" else "ListInst")
            env[b] = (b, "Unit")
            lines.append(f"let ({a}, _) := {v}")
        else:
            err(s, "unsupported assignment")
        return tg

    body = [s for s in fn.body if not (isinstance(s, ast.Expr) and isinstance(s.value, ast.Constant))]
    lines = []
    result = None
    for s in body:
        if isinstance(s, ast.Try):
            if len(s.handlers) != 1 or ast.unparse(s.handlers[0].type) != "KeyError" or s.orelse or s.finalbody or len(s.handlers[0].body) != 1:
                err(s, "unsupported try statement")
            inner = []
            last = None
            for st in s.body:
                last = assign(st, inner)
            hv, ht = expr(s.handlers[0].body[0].value)
            htg = s.handlers[0].body[0].targets[0]
            if not (isinstance(last, ast.Name) and isinstance(htg, ast.Name) and last.id == htg.id and env[last.id][1] == "V" and ht == "V"):
                err(s, "the try body and the handler do not end by binding the same value")
            lines.append(f"let attempt : Option V := do")
            lines += ["  " + x for x in inner] + [f"  pure {last.id}"]
            lines.append(f"let {last.id} := match attempt with | some v_ => v_ | none => {hv}")
        elif isinstance(s, ast.Return):
            v, t = expr(s.value)
            if t != "V":
                err(s, "returns something other than a feature value")
            result = v
        else:
            assign(s, lines)
    if result is None:
        err(fn, "no return")
    sha = hashlib.sha256(text.encode()).hexdigest()[:16]
    head = (f"/-\n  GENERATED by tools/py2lean_eff.py from {TREE_IMP_FILE} — do not edit.\n  sha256: {sha}\n"
            "  `TreeImputer._sample_from_storages` statement by statement over the tree oracle (routed leaf, drawn index, the tree's own prediction).\n-/\n"
            "import IxaiVerif.Model.Tree\n\nnamespace Ixai.Gen\nopen Ixai Ixai.Tree\n\n"
            "variable {K : Type} [Add K] [Sub K] [Mul K] [Div K] [NatCast K] [OfNat K 0] [OfNat K 1] [LE K] [DecidableLE K]\n\n"
            "def TreeImputer._sample_from_storages {V : Type} (rs : Reservoirs K (Nat → V)) (feature_name : Nat) (x_i : Nat → V) (leaf pick : Nat)\n"
            "    (fallback : V) : V := Id.run do\n")
    return head + "\n".join("  " + x for x in lines) + f"\n  return {result}\n\nend Ixai.Gen\n", [TREE_IMP_FILE], sha


# ----------------------------------------------------------------------------------------------------------------
# RiverMetricToLossFunction.__call__ (ixai/utils/wrappers/river.py) over the abstract metric of Model/RiverLoss.lean.  The boolean
# configuration attribute `self._dict_input_metric` decides the TYPE of what the metric receives, so the method is translated twice,
# once per value of the flag (conditions on the flag are decided at translation time):
#   self._river_metric.update(y_true=a, y_pred=b) -> st := m.update st (a, b) ; .revert likewise ; .get() -> m.get st
#   y_prediction.get('output', 0) -> singleValueArg y_prediction  (label 0 stands for 'output') ; self._sign -> parameter sign : K
# ----------------------------------------------------------------------------------------------------------------
RIVER_FILE = "ixai/utils/wrappers/river.py"


def translate_river_loss(repo):
    text = open(os.path.join(repo, RIVER_FILE)).read()
    tree = ast.parse(text, filename=RIVER_FILE)
    cls = [n for n in tree.body if isinstance(n, ast.ClassDef) and n.name == "RiverMetricToLossFunction"]
    fns = [n for n in (cls[0].body if cls else []) if isinstance(n, ast.FunctionDef) and n.name == "__call__"]
    if len(fns) != 1:
        raise Unsupported(f"{RIVER_FILE}: RiverMetricToLossFunction.__call__ not found")
    fn = fns[0]

    def err(node, msg):
        raise Unsupported(f"{RIVER_FILE}:{getattr(node, 'lineno', '?')}: {msg}: `{ast.unparse(node)[:80]}`")
    if [a.arg for a in fn.args.args[1:]] != ["y_true", "y_prediction"]:
        err(fn, "signature changed")
    out = []
    for flag in (False, True):
        env = {"y_true": ("y_true", "Y"), "y_prediction": ("y_prediction", "DictK")}
        counter = [0]

        def const_test(t):
            """value of a condition that only mentions the configuration flag, else None"""
            u = ast.unparse(t)
            if u == "self._dict_input_metric":
                return flag
            if u == "not self._dict_input_metric":
                return not flag
            return None

        def expr(e):
            u = ast.unparse(e)
            if isinstance(e, ast.Name) and e.id in env:
                return env[e.id]
            if u == "self._sign":
                return "sign", "K"
            if u in ("y_prediction.get('output', 0)", 'y_prediction.get("output", 0)') and env["y_prediction"][1] == "DictK":
                return f"(singleValueArg {env['y_prediction'][0]})", "K"
            if isinstance(e, ast.Call) and isinstance(e.func, ast.Attribute) and ast.unparse(e.func.value) == "self._river_metric":
                if e.func.attr == "get" and not e.args and not e.keywords:
                    return "(m.get st)", "K"
            if isinstance(e, ast.BinOp) and isinstance(e.op, ast.Mult):
                a, at = expr(e.left)
                b, bt = expr(e.right)
                if at == bt == "K":
                    return f"({a} * {b})", "K"
            err(e, "unsupported expression")

        def metric_step(c):
            f = c.func
            if isinstance(f, ast.Attribute) and ast.unparse(f.value) == "self._river_metric" and f.attr in ("update", "revert") and not c.args:
                kw = {k.arg: k.value for k in c.keywords}
                if set(kw) != {"y_true", "y_pred"}:
                    err(c, "metric call without y_true / y_pred")
                a, at = expr(kw["y_true"])
                b, bt = expr(kw["y_pred"])
                want = "DictK" if flag else "K"
                if at != "Y" or bt != want:
                    err(c, f"the metric receives ({at}, {bt}) instead of (label, {'prediction dict' if flag else 'single value'})")
                return f"st := m.{f.attr} st ({a}, {b})"
            return None

        lines = ["let mut st := st"]
        result = None
        body = [s for s in fn.body if not (isinstance(s, ast.Expr) and isinstance(s.value, ast.Constant))]

        def run(stmts):
            nonlocal result
            for s_ in stmts:
                if isinstance(s_, ast.If):
                    cv = const_test(s_.test)
                    if cv is None:
                        err(s_, "a condition that is not decided by the configuration flag")
                    run(s_.body if cv else s_.orelse)
                elif isinstance(s_, ast.Assign) and len(s_.targets) == 1 and isinstance(s_.targets[0], ast.Name):
                    tg = s_.targets[0].id
                    ms = metric_step(s_.value) if isinstance(s_.value, ast.Call) else None
                    if ms is not None:
                        lines.append(ms)          # `_ = metric.update(...)`: the returned object is not used
                        continue
                    v, t = expr(s_.value)
                    counter[0] += 1
                    ln = f"{tg}_{counter[0]}"
                    env[tg] = (ln, t)
                    lines.append(f"let {ln} := {v}")
                elif isinstance(s_, ast.Expr) and isinstance(s_.value, ast.Call):
                    ms = metric_step(s_.value)
                    if ms is None:
                        err(s_, "unsupported expression statement")
                    lines.append(ms)
                elif isinstance(s_, ast.Return) and s_.value is not None:
                    v, t = expr(s_.value)
                    if t != "K":
                        err(s_, "returns something other than a number")
                    result = v
                else:
                    err(s_, "unsupported statement")
        run(body)
        if result is None:
            err(fn, "no return")
        name = "RiverMetricToLossFunction.call_dict" if flag else "RiverMetricToLossFunction.call_single"
        aty = "Y × Dict K" if flag else "Y × K"
        out.append(f"def {name} {{σ Y : Type}} (m : Metric σ ({aty}) K) (sign : K) (st : σ) (y_true : Y) (y_prediction : Dict K) : K × σ := Id.run do\n"
                   + "\n".join("  " + x for x in lines) + f"\n  return ({result}, st)\n")
    sha = hashlib.sha256(text.encode()).hexdigest()[:16]
    head = (f"/-\n  GENERATED by tools/py2lean_eff.py from {RIVER_FILE} — do not edit.\n  sha256: {sha}\n"
            "  `RiverMetricToLossFunction.__call__`, once per value of the configuration flag `dict_input_metric`, over the abstract metric.\n-/\n"
            "import IxaiVerif.Model.RiverLoss\n\nnamespace Ixai.Gen\nopen Ixai\n\nvariable {K : Type} [Mul K] [OfNat K 0]\n\n")
    return head + "\n".join(out) + "\nend Ixai.Gen\n", [RIVER_FILE], sha


class Source:
    def __init__(self, repo, files=None):
        self.repo = repo
        self.classes = {}
        self.sha = {}
        for cname, rel in (files or FILES).items():
            text = open(os.path.join(repo, rel)).read()
            self.sha[cname] = hashlib.sha256(text.encode()).hexdigest()[:16]
            tree = ast.parse(text, filename=rel)
            found = [n for n in tree.body if isinstance(n, ast.ClassDef) and n.name == cname]
            if len(found) != 1:
                raise Unsupported(f"{rel}: class {cname} not found exactly once")
            self.classes[cname] = (found[0], rel)

    def mro(self, cname):
        out = [cname]
        node, _ = self.classes[cname]
        for b in node.bases:
            name = b.id if isinstance(b, ast.Name) else (b.attr if isinstance(b, ast.Attribute) else None)
            if name in self.classes:
                for c in self.mro(name):
                    if c not in out:
                        out.append(c)
        return out

    def find_method(self, cname, mname):
        for c in self.mro(cname):
            node, rel = self.classes[c]
            for n in node.body:
                if isinstance(n, ast.FunctionDef) and n.name == mname:
                    return n, rel, c
        return None, None, None

    def find_property(self, cname, pname):
        for c in self.mro(cname):
            node, rel = self.classes[c]
            for n in node.body:
                if isinstance(n, ast.FunctionDef) and n.name == pname and any(
                        isinstance(d, ast.Name) and d.id == "property" for d in n.decorator_list):
                    return n, rel
        return None


HEADER = """/-
  GENERATED by tools/py2lean_eff.py from {rels} — do not edit.
  sha256: {sha}
  `{cname}.explain_one` as a `do`-block over the effect monad of Model/Effect.lean, statement by statement.
-/
import IxaiVerif.Model.Effect

namespace Ixai.Gen
open Ixai

variable {{K : Type}} [Add K] [Sub K] [Mul K] [Div K] [NatCast K] [OfNat K 0] [OfNat K 1] [RealOps K] [DecidableEq K]
variable {{V Y : Type}}

"""


def translate_class(src, cname):
    fn, rel, owner = src.find_method(cname, "explain_one")
    if fn is None:
        raise Unsupported(f"{FILES[cname]}: {cname}.explain_one not found")
    f = Fn(src, cname, fn, rel)
    body = f.translate()
    perm = " (permutation : Nat → List Nat)" if f.uses_perm else ""
    hdefs = ""
    for (lname, hperm, hsig, hret, htext) in f.helpers.values():
        hp = " (permutation : Nat → List Nat)" if hperm else ""
        hdefs += (f"def {lname} (O : Oracles K V Y) (feature_names : List Nat) (cfg_n_inner_samples : Nat){hp}\n"
                  f"    (imputeM : List Nat → Nat → M K (List (Dict K))) {hsig} : M K ({lean_ty(hret)}) := do\n{htext}\n\n")
    sig = hdefs + (f"def {cname}.explain_one (O : Oracles K V Y) (feature_names : List Nat) (cfg_n_inner_samples : Nat){perm}\n"
           f"    (imputeM : List Nat → Nat → M K (List (Dict K)))\n"
           f"    (x_i : Inst V) (y_i : Y) (n_inner_samples : Option Nat) (update_storage : Bool) : M K (Dict K) := do\n")
    rels = sorted({FILES[c] for c in src.mro(cname)})
    sha = ",".join(src.sha[c] for c in src.mro(cname))
    return HEADER.format(rels=", ".join(rels), sha=sha, cname=cname) + sig + body + "\n\nend Ixai.Gen\n", rels, sha


def generate(repo=None, outdir=None):
    """returns {class: {sources, sha256, changed, error?}}; a class outside the subset leaves its previous file in place"""
    repo = repo or REPO
    outdir = outdir or os.path.join(os.path.dirname(os.path.dirname(os.path.abspath(__file__))), "lean", "IxaiVerif", "Gen")
    report = {}
    try:
        src = Source(repo)
    except (Unsupported, SyntaxError, OSError) as ex:
        return {c: {"sources": [FILES[c]], "sha256": "", "changed": False, "error": str(ex)} for c in EMIT}
    for cname in EMIT:
        try:
            text, rels, sha = translate_class(src, cname)
        except Unsupported as ex:
            report[cname] = {"sources": [FILES[cname]], "sha256": "", "changed": False, "error": str(ex)}
            continue
        path = os.path.join(outdir, cname + ".lean")
        old = open(path).read() if os.path.exists(path) else None
        if old != text:
            with open(path, "w") as fh:
                fh.write(text)
        report[cname] = {"sources": rels, "sha256": sha, "changed": old != text}
    try:
        bsrc = Source(repo, BATCH_FILES)
        text, rels, sha = translate_batch(bsrc)
        path = os.path.join(outdir, "BatchSage.lean")
        old = open(path).read() if os.path.exists(path) else None
        if old != text:
            with open(path, "w") as fh:
                fh.write(text)
        report["BatchSage"] = {"sources": rels, "sha256": sha, "changed": old != text}
    except (Unsupported, SyntaxError, OSError) as ex:
        report["BatchSage"] = {"sources": [BATCH_FILES["BatchSage"]], "sha256": "", "changed": False, "error": str(ex)}
    try:
        text, rels, sha = translate_river_loss(repo)
        path = os.path.join(outdir, "RiverLossAdapter.lean")
        old = open(path).read() if os.path.exists(path) else None
        if old != text:
            with open(path, "w") as fh:
                fh.write(text)
        report["RiverLossAdapter"] = {"sources": rels, "sha256": sha, "changed": old != text}
    except (Unsupported, SyntaxError, OSError, IndexError, KeyError) as ex:
        report["RiverLossAdapter"] = {"sources": [RIVER_FILE], "sha256": "", "changed": False, "error": str(ex)}
    try:
        text, rels, sha = translate_tree_imputer(repo)
        path = os.path.join(outdir, "TreeImputerStorage.lean")
        old = open(path).read() if os.path.exists(path) else None
        if old != text:
            with open(path, "w") as fh:
                fh.write(text)
        report["TreeImputerStorage"] = {"sources": rels, "sha256": sha, "changed": old != text}
    except (Unsupported, SyntaxError, OSError, IndexError, KeyError) as ex:
        report["TreeImputerStorage"] = {"sources": [TREE_IMP_FILE], "sha256": "", "changed": False, "error": str(ex)}
    try:
        text, rels, sha = translate_interval(repo)
        path = os.path.join(outdir, "IntervalSage.lean")
        old = open(path).read() if os.path.exists(path) else None
        if old != text:
            with open(path, "w") as fh:
                fh.write(text)
        report["IntervalSage"] = {"sources": rels, "sha256": sha, "changed": old != text}
    except (Unsupported, SyntaxError, OSError, IndexError, KeyError) as ex:
        report["IntervalSage"] = {"sources": [INTERVAL_FILE], "sha256": "", "changed": False, "error": str(ex)}
    try:
        text, rels, sha = translate_mean_output(repo)
        path = os.path.join(outdir, "MeanModelOutput.lean")
        old = open(path).read() if os.path.exists(path) else None
        if old != text:
            with open(path, "w") as fh:
                fh.write(text)
        report["MeanModelOutput"] = {"sources": rels, "sha256": sha, "changed": old != text}
    except (Unsupported, SyntaxError, OSError, IndexError, KeyError) as ex:
        report["MeanModelOutput"] = {"sources": ["ixai/explainer/base.py"], "sha256": "", "changed": False, "error": str(ex)}
    try:
        text, rels, sha = translate_tree(repo)
        path = os.path.join(outdir, "TreeStorageBookkeeping.lean")
        old = open(path).read() if os.path.exists(path) else None
        if old != text:
            with open(path, "w") as fh:
                fh.write(text)
        report["TreeStorageBookkeeping"] = {"sources": rels, "sha256": sha, "changed": old != text}
    except (Unsupported, SyntaxError, OSError, IndexError, KeyError) as ex:
        report["TreeStorageBookkeeping"] = {"sources": [TREE_FILE], "sha256": "", "changed": False, "error": str(ex)}
    try:
        text, rels, sha = translate_mv(repo)
        path = os.path.join(outdir, "MultiValueTracker.lean")
        old = open(path).read() if os.path.exists(path) else None
        if old != text:
            with open(path, "w") as fh:
                fh.write(text)
        report["MultiValueTracker"] = {"sources": rels, "sha256": sha, "changed": old != text}
    except (Unsupported, SyntaxError, OSError, IndexError, KeyError) as ex:
        report["MultiValueTracker"] = {"sources": [MV_FILE], "sha256": "", "changed": False, "error": str(ex)}
    try:
        text, rels, sha = translate_normalize(repo)
        path = os.path.join(outdir, "NormalizeImportance.lean")
        old = open(path).read() if os.path.exists(path) else None
        if old != text:
            with open(path, "w") as fh:
                fh.write(text)
        report["NormalizeImportance"] = {"sources": rels, "sha256": sha, "changed": old != text}
    except (Unsupported, SyntaxError, OSError, IndexError) as ex:
        report["NormalizeImportance"] = {"sources": ["ixai/explainer/base.py"], "sha256": "", "changed": False, "error": str(ex)}
    try:
        isrc = Source(repo, IMP_FILES)
    except (Unsupported, SyntaxError, OSError) as ex:
        for c in IMP_EMIT:
            report[c] = {"sources": [IMP_FILES[c]], "sha256": "", "changed": False, "error": str(ex)}
        return report
    for cname in IMP_EMIT:
        try:
            text, rels, sha = translate_imputer(isrc, cname)
        except Unsupported as ex:
            report[cname] = {"sources": [IMP_FILES[cname]], "sha256": "", "changed": False, "error": str(ex)}
            continue
        path = os.path.join(outdir, cname + ".lean")
        old = open(path).read() if os.path.exists(path) else None
        if old != text:
            with open(path, "w") as fh:
                fh.write(text)
        report[cname] = {"sources": rels, "sha256": sha, "changed": old != text}
    return report


if __name__ == "__main__":
    out = sys.argv[1] if len(sys.argv) > 1 else None
    rep = generate(REPO, out)
    for k, v in rep.items():
        print(k, ("UNSUPPORTED " + v["error"]) if v.get("error") else ("changed" if v["changed"] else "unchanged"))
