import sys
if hasattr(sys, "set_int_max_str_digits"):
    sys.set_int_max_str_digits(0)
