"""small helpers shared by the property checks"""
from fractions import Fraction
from harness.q import Q


def shrink_list(fails, lst, max_steps=200):
    """greedy delta-debugging: drop elements while `fails(candidate)` stays true"""
    cur = list(lst)
    steps = 0
    chunk = max(1, len(cur) // 2)
    while chunk >= 1 and steps < max_steps:
        i = 0
        changed = False
        while i < len(cur) and steps < max_steps:
            cand = cur[:i] + cur[i + chunk:]
            steps += 1
            if cand != cur and fails(cand):
                cur = cand
                changed = True
            else:
                i += chunk
        if not changed:
            chunk //= 2
    return cur


def rand_rat(rng, scale=10, den_max=6):
    d = rng.randint(1, den_max)
    return Q(rng.randint(-scale * d, scale * d), d)


def rand_value(rng, consts=()):
    """a rational from a mixture: small integers, small fractions, large magnitudes, neighbours of constants mined
    from the source"""
    r = rng.random()
    if r < 0.35:
        return Q(rng.randint(-5, 5))
    if r < 0.7:
        return rand_rat(rng)
    if r < 0.8:
        return Q(rng.choice([10 ** 3, 10 ** 6, 10 ** 9, -10 ** 6, 10 ** 12]) + rng.randint(-3, 3))
    if r < 0.9 and consts:
        c = rng.choice(list(consts))
        return Q(Fraction(c)) + rng.choice([-1, 0, 1, Fraction(1, 2), -Fraction(1, 2)])
    if r < 0.95:
        return Q(rng.randint(-3, 3), 10 ** rng.randint(3, 9))
    return Q(0)
