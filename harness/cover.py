"""Coverage gate (DESIGN.md section 4.3): a hand-written model can only be said to correspond to the code that the
correspondence run actually executed.  With sys.monitoring (3.12) the lines executed inside the functions of the
anchored files are recorded; every executable line of every function of those files must be reached by the run, except
the lines listed in /verif/coverage_baseline.json (generated once on the clean tree, keyed by function qualified name
and SOURCE TEXT of the line, so an edit cannot hide behind an entry)."""
import json
import os
import sys
import types

from harness import core

TOOL = 3
BASELINE = os.path.join(core.VERIF, "coverage_baseline.json")


def _function_lines(path):
    """{qualname: {line: source text}} for every function (incl. methods, nested) of the file"""
    import ast
    src = open(path).read()
    lines = src.splitlines()
    top = compile(src, path, "exec")
    out = {}
    # the message of an `assert` is evaluated only when the assertion fails: an error path the models do not contain
    # (assertions are recorded, not executed) — its lines are not gated, however the statement is laid out
    assert_msg_lines = set()
    for n in ast.walk(ast.parse(src)):
        if isinstance(n, ast.Assert) and n.msg is not None:
            test_lines = set(range(n.test.lineno, (n.test.end_lineno or n.test.lineno) + 1))
            assert_msg_lines |= set(range(n.msg.lineno, (n.msg.end_lineno or n.msg.lineno) + 1)) - test_lines

    def walk(code, prefix):
        for c in code.co_consts:
            if isinstance(c, types.CodeType):
                q = (prefix + "." if prefix else "") + c.co_name
                if c.co_name.startswith("<") and c.co_name not in ("<lambda>",):
                    # comprehensions / genexprs: attribute their lines to the enclosing function
                    walk(c, prefix)
                    tgt = out.setdefault(prefix or "<module>", {})
                else:
                    tgt = out.setdefault(q, {})
                    walk(c, q)
                for _, _, ln in c.co_lines():
                    if ln is not None and ln != c.co_firstlineno and 0 < ln <= len(lines) and ln not in assert_msg_lines:
                        text = lines[ln - 1].strip()
                        if text and not text.startswith(("\"\"\"", "'''", "#")):
                            tgt[ln] = text
    walk(top, "")
    out.pop("<module>", None)
    return out


class Cover:
    def __init__(self, rel_files):
        self.files = {os.path.realpath(os.path.join(core.REPO, r)): r for r in rel_files}
        self.hits = set()
        self.active = False

    def __enter__(self):
        mon = sys.monitoring
        try:
            mon.use_tool_id(TOOL, "ixai-verif-cover")
        except ValueError:
            mon.free_tool_id(TOOL)
            mon.use_tool_id(TOOL, "ixai-verif-cover")
        files = self.files
        hits = self.hits

        def on_line(code, line):
            fn = code.co_filename
            if fn in files or os.path.realpath(fn) in files:
                hits.add((os.path.realpath(fn), line))
            return mon.DISABLE
        mon.register_callback(TOOL, mon.events.LINE, on_line)
        mon.set_events(TOOL, mon.events.LINE)
        mon.restart_events()
        self.active = True
        return self

    def __exit__(self, *a):
        mon = sys.monitoring
        mon.set_events(TOOL, 0)
        mon.register_callback(TOOL, mon.events.LINE, None)
        mon.free_tool_id(TOOL)
        self.active = False

    def missing(self, entered_only=False):
        """list of (rel file, qualname, line, text) of executable function lines never executed"""
        out = []
        for path, rel in self.files.items():
            try:
                fl = _function_lines(path)
            except Exception as ex:
                out.append((rel, "<unparseable>", 0, str(ex)))
                continue
            for q, lines in fl.items():
                entered = any((path, ln) in self.hits for ln in lines)
                if entered_only and not entered:
                    # a function the run never entered is not part of what this check ties to its model; code that IS reachable
                    # from an executed path but was not executed always shows up as an unexecuted line of an ENTERED function
                    # (at the latest the line with the call), so nothing can hide behind this
                    continue
                for ln, text in lines.items():
                    if (path, ln) not in self.hits:
                        out.append((rel, q, ln, text))
        return out


def shape(text):
    """a line's statement with local names replaced by positional placeholders and comments dropped, so that renaming a local or
    editing a comment does not turn a baseline line into a `new' one; attribute names, calls, constants and operators are kept"""
    import ast
    src = text.strip()
    tree = None
    for cand in (src, src + "\n    pass", "if True:\n    pass\n" + src + "\n    pass", "try:\n    pass\n" + src + "\n    pass"):
        try:
            tree = ast.parse(cand)
            break
        except SyntaxError:
            continue
    if tree is None:
        return src.split("#", 1)[0].strip()
    names = {}
    for n in ast.walk(tree):
        if isinstance(n, ast.Name) and n.id not in ("self", "cls", "True", "False", "None"):
            n.id = names.setdefault(n.id, f"_v{len(names)}")
        elif isinstance(n, ast.arg):
            n.arg = names.setdefault(n.arg, f"_v{len(names)}")
    return ast.dump(tree, annotate_fields=False)


def load_baseline():
    if os.path.exists(BASELINE):
        return json.load(open(BASELINE))
    return {}


def gate(chk, cover, only_functions=None):
    """register a tie failure for code of the anchored files that the correspondence run never executed and that is not in
    the committed baseline.  `only_functions`: restrict to these qualified names (prefix match)."""
    base = load_baseline().get(chk.pid, [])
    known = {(b["file"], b["function"], b["text"]) for b in base} | {(b["file"], b["function"], shape(b["text"])) for b in base}
    miss = cover.missing(entered_only=not os.environ.get("VERIF_WRITE_COVERAGE_BASELINE"))
    if only_functions is not None:
        miss = [m for m in miss if any(m[1] == f or m[1].startswith(f + ".") for f in only_functions)]
    new = [m for m in miss if (m[0], m[1], m[3]) not in known and (m[0], m[1], shape(m[3])) not in known]
    chk.extra["coverage_gate"] = {"files": sorted(cover.files.values()), "lines_hit": len(cover.hits),
                                  "uncovered_in_baseline": len(miss) - len(new), "uncovered_new": [list(m) for m in new[:10]]}
    if os.environ.get("VERIF_WRITE_COVERAGE_BASELINE"):
        allb = load_baseline()
        entries = [{"file": m[0], "function": m[1], "text": m[3]} for m in miss]
        if os.environ.get("VERIF_COVERAGE_MERGE"):
            have = {(e["file"], e["function"], e["text"]) for e in entries}
            entries += [e for e in allb.get(chk.pid, []) if (e["file"], e["function"], e["text"]) not in have]
        allb[chk.pid] = sorted(entries, key=lambda e: (e["file"], e["function"], e["text"]))
        with open(BASELINE, "w") as fh:
            json.dump(allb, fh, indent=1, sort_keys=True)
        return []
    if new:
        loc = "; ".join(f"{m[0]}:{m[2]} in {m[1]}: `{m[3][:60]}`" for m in new[:5])
        chk.tie_failure("coverage-gate", f"the correspondence run never executed {len(new)} line(s) of the modelled code, so the hand-written model "
                        f"is not tied to them: {loc}")
    return new
