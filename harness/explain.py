"""Rig for running the real explainers in exact arithmetic with instrumented callbacks, and for turning such a run
into a request for the Lean model driver (tables of the callbacks' observed behaviour, feature order, imputer outputs).

Nothing here touches /repo: callbacks are ordinary Python callables handed to the constructors, the imputer and storage
objects are wrapped after construction, randomness is controlled through harness.rng."""
import copy
import hashlib
import random as pyrandom
import warnings
from fractions import Fraction

from harness import core, rng as hrng
from harness.q import Q, rs


class Fault(Exception):
    """raised by an instrumented callback when told to fail"""


class FaultKeyError(Fault, KeyError):
    pass


class FaultValueError(Fault, ValueError):
    pass


class FaultZeroDivision(Fault, ZeroDivisionError):
    pass


class FaultIndexError(Fault, IndexError):
    pass


class FaultRuntime(Fault, RuntimeError):
    pass


class FaultStopIteration(Fault, StopIteration):
    pass


class FaultAttributeError(Fault, AttributeError):
    pass


class FaultTypeError(Fault, TypeError):
    pass


class FaultAssertion(Fault, AssertionError):
    pass


class FaultNotImplemented(Fault, NotImplementedError):
    pass


class FaultOSError(Fault, OSError):
    pass


FAULT_TYPES = [Fault, FaultKeyError, FaultValueError, FaultZeroDivision, FaultIndexError, FaultRuntime, FaultStopIteration,
               FaultAttributeError, FaultTypeError, FaultAssertion, FaultNotImplemented, FaultOSError]


class Ids:
    """numbering of labels by first appearance"""

    def __init__(self):
        self.ids = {}
        self.objs = []

    def of(self, obj):
        k = core.canon_key(obj)
        if k not in self.ids:
            self.ids[k] = len(self.objs)
            self.objs.append(obj)
        return self.ids[k]


NAME_SETS = {
    "str": ["a", "b", "c", "d", "e"],
    "int": [0, 1, 2, 3, 4],
    "float": [0.5, 1.5, 2.5, 3.5, 4.5],
    "mixed": ["a", 1, 2.5, "d", 4],
    "intish": [3, 7, 11, 2, 5],
}


class Rig:
    """one explainer under test, with instrumented model / loss / imputer / storage"""

    def __init__(self, rng, kind="sage", d=3, names_kind="str", dynamic=True, alpha=Q(1, 3), n_inner=1,
                 storage_kind="geom", storage_size=3, imputer_kind="joint", model_kind="scalar", loss_kind="arbitrary",
                 lbb=False, interval_length=2, storage_length=3, default_ctor=False, extra_features=0, positional=False,
                 static_alpha=False, prefill=0):
        self.rng = rng
        self.static_alpha = static_alpha
        self.prefill = prefill
        self.kind = kind
        self.d = d
        self.names = list(NAME_SETS[names_kind][:d])
        self.extra = [f"extra{i}" for i in range(extra_features)]
        # positional model (like SklearnWrapper without feature_names): reads the values of the dict in ITS key order; every instance of
        # the data set uses one fixed column order that differs from the order of `feature_names`
        self.positional = positional
        self.column_order = list(reversed(self.names)) if positional else None
        self.dynamic = dynamic
        self.alpha = alpha
        self.n_inner = n_inner
        self.storage_kind = storage_kind
        self.storage_size = storage_size
        self.imputer_kind = imputer_kind
        self.model_kind = model_kind
        self.loss_kind = loss_kind
        self.lbb = lbb
        self.labels = Ids()
        self.labels.of("output")  # label id 0 is always 'output'
        self.model_table = {}   # xkey -> (xlist, outdict canon)
        self.loss_table = {}
        self.calls = 0          # global invocation counter (model, loss, storage-update)
        self.kind_calls = {"model": 0, "loss": 0, "storage": 0, "impute": 0}
        self.fail_at = {}       # global counter value -> True  (fault injection)
        self.faults_raised = 0
        self.log = []           # event log of the current step
        self.imp_calls = []     # imputer calls of the current step
        self.steps = []         # per-step records
        self.model_log = []     # every model evaluation in order: (x, out)
        self.coef = [Q(rng.randint(-3, 3), rng.randint(1, 3)) for _ in range(d + 2)]
        self.pair = {(i, j): Q(rng.randint(-2, 2), rng.randint(1, 2)) for i in range(d) for j in range(i + 1, d)}
        self.coef2 = [Q(rng.randint(-3, 3), rng.randint(1, 3)) for _ in range(d + 2)]
        self.ignored = set()
        self.interval_length = interval_length
        self.storage_length = storage_length
        self._build(default_ctor)

    # ---- callbacks --------------------------------------------------------------------------------------------
    def _tick(self, kind):
        c = self.calls
        self.calls += 1
        self.kind_calls[kind] += 1
        self.log.append(kind[0].upper())
        if self.fail_at.get(c):
            self.faults_raised += 1
            # the exception TYPE varies with the position: library code must not swallow particular types
            raise FAULT_TYPES[c % len(FAULT_TYPES)](f"{kind} callback told to fail at invocation {c}")
        return c

    def xlist(self, x):
        return [Q(x[f]) for f in self.names]

    def _model_one(self, x):
        v = self.xlist(x)
        if self.positional:
            # by position: the k-th value of the dict is taken for column k of the data set
            vals = [Q(val) for key, val in x.items() if key not in self.extra]
            by_col = dict(zip(self.column_order, vals))
            v = [by_col[f] for f in self.names]
        lin = self.coef[-1]
        for i, vi in enumerate(v):
            if i in self.ignored:
                continue
            lin = lin + self.coef[i] * vi
        for (i, j), c in self.pair.items():
            if i in self.ignored or j in self.ignored:
                continue
            lin = lin + c * v[i] * v[j]
        if self.model_kind == "scalar":
            return {"output": lin}
        lin2 = self.coef2[-1]
        for i, vi in enumerate(v):
            if i in self.ignored:
                continue
            lin2 = lin2 + self.coef2[i] * vi
        if self.model_kind == "multi":
            return {0: lin, 1: lin2, "c": lin - lin2}
        # growing label set: a third label appears only for some inputs
        out = {"p": lin, "q": lin2}
        if lin > 0:
            out["late"] = lin * lin2
        if lin2 > 1:
            out[7] = lin + 1
        return out

    def model_fn(self, x):
        if isinstance(x, dict):
            self._tick("model")
            out = self._model_one(x)
            self._record_model(x, out)
            return out
        # batch call (BatchSage): a list / deque of instances -> list of outputs; counted as one invocation per row
        outs = []
        for xi in x:
            self._tick("model")
            o = self._model_one(xi)
            self._record_model(xi, o)
            outs.append(o)
        return outs

    def _record_model(self, x, out):
        key = tuple(rs(v) for v in self.xlist(x))
        self.model_table[key] = self.cdict(out)
        self.model_log.append((list(key), self.cdict(out)))

    def cdict(self, d):
        """canonical protocol form of an output dict: sorted list of [label id, 'p/q']"""
        return sorted([[self.labels.of(k), rs(v)] for k, v in d.items()], key=lambda e: e[0])

    def loss_fn(self, y_true, y_pred):
        self._tick("loss")
        cp = self.cdict(y_pred)
        y = Q(y_true)
        if self.loss_kind == "squared":
            v = sum(((Q(Fraction(val)) - y) ** 2 for _, val in cp), Q(0))
        elif self.loss_kind == "absolute":
            v = sum((abs(Q(Fraction(val)) - y) for _, val in cp), Q(0))
        else:
            h = hashlib.sha1(repr((rs(y), cp)).encode()).digest()
            v = Q(int.from_bytes(h[:3], "big") % 2001 - 1000, 1 + h[3] % 7)
        self.loss_table[(rs(y), repr(cp))] = (rs(y), cp, rs(v))
        return v

    # ---- construction -----------------------------------------------------------------------------------------
    def _storage(self):
        from ixai.storage import (GeometricReservoirStorage, UniformReservoirStorage, BatchStorage, IntervalStorage,
                                  SequenceStorage)
        k, s = self.storage_kind, self.storage_size
        if k == "geom":
            return GeometricReservoirStorage(size=s, store_targets=False, constant_probability=None)
        if k == "geom1":
            return GeometricReservoirStorage(size=s, store_targets=True, constant_probability=1.0)
        if k == "uniform":
            return UniformReservoirStorage(size=s, store_targets=False)
        if k == "batch":
            return BatchStorage(store_targets=True)
        if k == "interval":
            return IntervalStorage(size=s, store_targets=True)
        if k == "sequence":
            return SequenceStorage(store_targets=True)
        raise ValueError(k)

    def _build(self, default_ctor):
        from ixai.explainer import IncrementalPFI, IncrementalSage
        from ixai.explainer.sage import BatchSage, IntervalSage
        from ixai.imputer import MarginalImputer, DefaultImputer
        from ixai.storage import IntervalStorage
        with warnings.catch_warnings():
            warnings.simplefilter("ignore")
            d0 = hrng.Scripted(pyrandom.Random(self.rng.randrange(10 ** 9)),
                               real_fn=lambda r: r.random())
            with d0.installed():
                self.storage = None if default_ctor else self._storage()
                imputer = None
                if not default_ctor:
                    if self.imputer_kind in ("joint", "product"):
                        imputer = MarginalImputer(self.model_fn, self.imputer_kind, self.storage)
                    elif self.imputer_kind == "default":
                        self.default_values = {f: Q(self.rng.randint(-4, 4), self.rng.randint(1, 3)) for f in self.names}
                        # falsy defaults (0, 0.0, False) are legitimate configured values
                        self.default_values[self.names[self.rng.randrange(len(self.names))]] = self.rng.choice([0, 0.0, Q(0), False])
                        imputer = DefaultImputer(self.model_fn, dict(self.default_values))
                common = dict(model_function=self.model_fn, loss_function=self.loss_fn, feature_names=self.names)
                if self.kind in ("pfi", "sage"):
                    cls = IncrementalPFI if self.kind == "pfi" else IncrementalSage
                    kw = {} if self.dynamic else {"dynamic_setting": False}
                    if not default_ctor:
                        kw = dict(storage=self.storage, imputer=imputer, n_inner_samples=self.n_inner,
                                  dynamic_setting=self.dynamic)
                        if self.dynamic or self.alpha is not None:
                            # in the static setting the configured alpha is not used by the trackers, but get_confidence_bound reads it
                            kw["smoothing_alpha"] = self.alpha if (self.dynamic or getattr(self, "static_alpha", False)) else None
                        if self.kind == "pfi" and not self.dynamic:
                            kw["smoothing_alpha"] = self.alpha if self.alpha is not None else Q(1, 1000)
                        if self.kind == "sage":
                            kw["loss_bigger_is_better"] = self.lbb
                    self.ex = cls(**common, **kw)
                elif self.kind == "batch":
                    self.ex = BatchSage(**common, n_inner_samples=self.n_inner, storage=self.storage, imputer=imputer)
                elif self.kind == "interval":
                    st = IntervalStorage(size=self.storage_length, store_targets=True)
                    self.storage = st
                    imputer = MarginalImputer(self.model_fn, self.imputer_kind, st) if not default_ctor else None
                    self.ex = IntervalSage(**common, n_inner_samples=self.n_inner, interval_length=self.interval_length,
                                           storage_length=self.storage_length, storage=st, imputer=imputer)
        self.storage = self.ex._storage
        # a storage that already holds observations when the explainer is first called (shared with another explainer, or filled by hand):
        # the explainer's FIRST call still only seeds, whatever the storage contains
        if self.prefill and self.kind in ("pfi", "sage"):
            with warnings.catch_warnings():
                warnings.simplefilter("ignore")
                d0 = hrng.Scripted(pyrandom.Random(self.rng.randrange(10 ** 9)), real_fn=lambda r: r.random())
                with d0.installed():
                    for _ in range(self.prefill):
                        self.storage.update(self.gen_x(), self.gen_y())
        self._wrap_imputer()
        self._wrap_storage()

    def _wrap_imputer(self):
        imp = self.ex._imputer
        orig = imp.impute
        rig = self

        def impute(feature_subset, x_i, n_samples=None, **kw):
            entry = rig.calls
            subset_copy = sorted((rig.names.index(f) for f in feature_subset))
            kwargs = dict(kw)
            if n_samples is not None:
                kwargs["n_samples"] = n_samples
            draws_before = len(rig.draws.log) if rig.draws is not None else 0
            rec = {"subset": subset_copy, "n": n_samples, "preds": None, "entry": entry, "rows": [],
                   "raw_subset_type": type(feature_subset).__name__}
            rig.imp_calls.append(rec)
            mlog0 = len(rig.model_log)
            try:
                preds = orig(feature_subset=feature_subset, x_i=x_i, **kwargs)
                rec["preds"] = [rig.cdict(p) for p in preds]
                return preds
            finally:
                rec["inputs"] = [list(k) for k, _ in rig.model_log[mlog0:]]
                if rig.draws is not None:
                    rec["rows"] = [v for k, _, v in rig.draws.log[draws_before:] if k == "index"]
        imp.impute = impute

    def _wrap_storage(self):
        st = self.ex._storage
        orig = st.update
        rig = self

        def update(x, y=None):
            rig._tick("storage")
            rig.storage_updates.append((copy.deepcopy(x), copy.deepcopy(y)))
            return orig(x, y)
        st.update = update
        self.storage_updates = []

    # ---- running ----------------------------------------------------------------------------------------------
    draws = None

    def gen_x(self):
        x = {f: Q(self.rng.randint(-4, 4), self.rng.randint(1, 3)) for f in self.names}
        for e in self.extra:
            x[e] = Q(self.rng.randint(-4, 4))
        # Python dict order is part of the input: shuffle it (a positional model needs the data set's fixed column order)
        items = list(x.items())
        if self.positional:
            return {f: x[f] for f in self.column_order}
        self.rng.shuffle(items)
        return dict(items)

    def gen_y(self):
        return Q(self.rng.randint(-3, 3), self.rng.randint(1, 2))

    def storage_rows(self):
        xs, _ = self.ex._storage.get_data()
        return [[rs(v) for v in self.xlist(r)] for r in xs]

    def estimates(self):
        ex = self.ex
        out = {"importance": self.fdict(ex.importance_values)}
        if hasattr(ex, "variances"):
            out["variance"] = self.fdict(ex.variances)
        if self.kind == "sage":
            out["marginal_loss"] = rs(ex.marginal_loss)
            out["model_loss"] = rs(ex.model_loss)
            out["explained_loss"] = rs(ex.explained_loss)
            out["marginal_prediction"] = self.cdict(ex.marginal_prediction)
        return out

    def fdict(self, d):
        """dict keyed by feature names -> sorted [[feature index, 'p/q']]; unknown keys are kept visible"""
        out = []
        for k, v in d.items():
            idx = [i for i, nm in enumerate(self.names) if core.canon_key(nm) == core.canon_key(k)]
            out.append([idx[0] if idx else f"?{core.canon_key(k)}", rs(v)])
        return sorted(out, key=lambda e: (isinstance(e[0], str), e[0]))

    def step(self, x=None, y=None, seed=None, perm=None, **kw):
        """one explain_one under scripted draws; returns the step record"""
        x = self.gen_x() if x is None else x
        y = self.gen_y() if y is None else y
        self.log, self.imp_calls = [], []
        nupd0 = len(self.storage_updates)
        rows_before = self.storage_rows()
        x_snapshot, y_snapshot, names_snapshot = copy.deepcopy(x), copy.deepcopy(y), list(self.names)
        calls0 = self.calls
        faults0 = self.faults_raised
        kc0 = dict(self.kind_calls)
        self.draws = hrng.Scripted(pyrandom.Random(self.rng.randrange(10 ** 9) if seed is None else seed),
                                   real_fn=lambda r: r.random(),
                                   perms=([list(perm)] * 50 if perm is not None else None))
        rec = {"x": [rs(v) for v in self.xlist(x)], "y": rs(y), "kw": {k: v for k, v in kw.items()},
               "rows_before": rows_before}
        try:
            with warnings.catch_warnings():
                warnings.simplefilter("ignore")
                with self.draws.installed():
                    ret = self.ex.explain_one(x, y, **kw)
            rec["ret"] = self.fdict(ret)
            rec["error"] = None
        except Fault as ex:
            rec["ret"] = None
            rec["error"] = "fault"
        except Exception as ex:
            rec["ret"] = None
            rec["error"] = core.err_kind(ex)
            rec["error_text"] = str(ex)[:200]
        perms = [p for k, n, p in self.draws.log if k == "perm"]
        rec["perm_drawn"] = [list(p) for p in perms]
        rec["perm"] = self._perm_from_imputer() if self.kind != "pfi" else None
        rec["imp_calls"] = self.imp_calls
        rec["log"] = "".join(self.log)
        rec["calls0"] = calls0
        rec["model_calls"] = self.kind_calls["model"] - kc0["model"]
        rec["loss_calls"] = self.kind_calls["loss"] - kc0["loss"]
        rec["storage_updates"] = [([rs(v) for v in self.xlist(a)], rs(b) if b is not None else None)
                                  for a, b in self.storage_updates[nupd0:]]
        rec["est"] = self.estimates()
        rec["seen"] = getattr(self.ex, "seen_samples", None)
        rec["fault_raised"] = self.faults_raised > faults0
        rec["mutated"] = (x != x_snapshot) or (y != y_snapshot) or (self.names != names_snapshot) \
            or (list(x.keys()) != list(x_snapshot.keys()))
        rec["draw_log"] = [(k, n) for k, n, _ in self.draws.log]
        self.draws = None
        self.steps.append(rec)
        return rec

    def _perm_from_imputer(self):
        """feature order read off the subsets the imputer received (each call drops one feature)"""
        remaining = list(range(self.d))
        perm = []
        for c in self.imp_calls:
            if c["preds"] is None:
                break
            gone = [f for f in remaining if f not in c["subset"]]
            if len(gone) != 1 or any(f not in remaining for f in c["subset"]):
                return None
            perm.append(gone[0])
            remaining.remove(gone[0])
        return perm if len(perm) == self.d else (perm if perm else None)

    # ---- driver requests --------------------------------------------------------------------------------------
    def tables(self):
        return {"d": self.d,
                "model": [[list(k), v] for k, v in self.model_table.items()],
                "loss": [[y, cp, v] for (y, cp, v) in self.loss_table.values()]}

    def imp_table(self, rec):
        return [[c["subset"], c["preds"]] for c in rec["imp_calls"] if c["preds"] is not None]

    def pure_request(self):
        """request for `pfi_run` / `sage_run` over the recorded steps (steps that raised are not included)"""
        steps = []
        for rec in self.steps:
            if rec["error"] is not None:
                continue  # a call that raised leaves the estimates untouched (C17): it is not a step of the pure model
            s = {"x": rec["x"], "y": rec["y"], "imp": self.imp_table(rec)}
            if self.kind == "sage":
                s["perm"] = rec["perm"] if rec["perm"] is not None else (rec["perm_drawn"][-1] if rec["perm_drawn"] else [])
            steps.append(s)
        req = {"op": "sage_run" if self.kind == "sage" else "pfi_run",
               "alpha": (rs(self.effective_alpha()) if self.dynamic else None),
               "names": list(range(self.d)), "lbb": self.lbb, "steps": steps}
        req.update(self.tables())
        return req

    def eff_request(self, fail=()):
        """request for `pfi_eff` / `sage_eff`: library MarginalImputer(joint); faults by global invocation number"""
        steps = []
        for rec in self.steps:
            s = {"x": rec["x"], "y": rec["y"], "update_storage": rec["kw"].get("update_storage", True),
                 "rows": rec["rows_before"], "row_choices": [c["rows"] for c in rec["imp_calls"]],
                 "impute_entry_calls": [c["entry"] for c in rec["imp_calls"]]}
            if self.kind == "sage":
                drawn = rec["perm_drawn"][-1] if rec["perm_drawn"] else None
                s["perm"] = drawn if drawn is not None else (rec["perm"] or [])
            steps.append(s)
        req = {"op": "sage_eff" if self.kind == "sage" else "pfi_eff",
               "alpha": (rs(self.effective_alpha()) if self.dynamic else None), "names": list(range(self.d)),
               "n": self.n_inner, "steps": steps, "fail_model": list(fail), "fail_loss": list(fail), "fail_storage": list(fail)}
        req.update(self.tables())
        return req

    def effective_alpha(self):
        """the smoothing parameter the real object uses, as an exact rational (the default 0.001 is a float)"""
        a = getattr(self.ex, "_smoothing_alpha", None)
        if a is not None:
            return Q(a)
        return self.alpha if self.alpha is not None else Q(1, 1000)


def est_from_model(ans_step):
    """normalise a driver step answer to the shape of Rig.estimates()"""
    out = {"importance": [[k, v] for k, v in ans_step["importance"]],
           "variance": [[k, v] for k, v in ans_step["variance"]],
           "marginal_loss": ans_step["marginal_loss"], "model_loss": ans_step["model_loss"],
           "explained_loss": ans_step["explained_loss"],
           "marginal_prediction": [[k, v] for k, v in ans_step["marginal_prediction"]]}
    return out
