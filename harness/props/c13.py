"""C13 — a river metric used as loss is a pure, smaller-is-better function.

Stage A: Props/C13.lean (adapter protocol over an abstract metric under the named hypothesis RevertUndoesUpdateFromFresh;
         instance: running-mean metrics).
Stage B: (tie) the real adapter over river's MAE / MSE in exact arithmetic vs the Lean model over `meanMetric`;
         (monitored hypothesis + oracle) for EVERY metric class of the installed river that validate_loss_function
         accepts: interleaved call histories through several adapters sharing one metric object against a fresh metric
         per pair, sign for bigger-is-better metrics, `metric.get()` before/after, what the metric's update receives.
"""
import copy
import inspect
import math
import warnings

from harness import core
from harness.q import Q, rs


def accepted_metrics():
    import river.metrics as rm
    from ixai.utils.validators.loss import validate_loss_function
    out = []
    for name in sorted(dir(rm)):
        cls = getattr(rm, name)
        if not inspect.isclass(cls):
            continue
        try:
            from river.metrics.base import Metric
            if not issubclass(cls, Metric):
                continue
            m = cls()
            with warnings.catch_warnings():
                warnings.simplefilter("ignore")
                loss = validate_loss_function(m)
            out.append((name, cls, loss._dict_input_metric))
        except Exception:
            continue
    return out


def user_defined_metrics():
    """River metrics a user writes (subclasses of river's own bases), one per combination of the two things the adapter
    decides on: what `update` receives (whole dict / single value) and the direction (bigger / smaller is better)."""
    from river.metrics.base import ClassificationMetric, MeanMetric, RegressionMetric

    class TrueClassProbability(MeanMetric, ClassificationMetric):  # dict, bigger is better (ClassificationMetric default)
        @property
        def requires_labels(self):
            return False

        def _eval(self, y_true, y_pred):
            return y_pred.get(y_true, 0.)

    class MissedProbability(MeanMetric, ClassificationMetric):  # dict, smaller is better
        @property
        def requires_labels(self):
            return False

        @property
        def bigger_is_better(self):
            return False

        def _eval(self, y_true, y_pred):
            return sum(v for k, v in y_pred.items() if k != y_true)

    class WithinOne(MeanMetric, RegressionMetric):  # single value, bigger is better
        @property
        def bigger_is_better(self):
            return True

        def _eval(self, y_true, y_pred):
            return 1.0 if abs(y_true - y_pred) <= 1 else 0.25

    class CubedError(MeanMetric, RegressionMetric):  # single value, smaller is better (RegressionMetric default)
        def _eval(self, y_true, y_pred):
            return abs(y_true - y_pred) ** 3
    return [TrueClassProbability, MissedProbability, WithinOne, CubedError]


def accepted_user_metrics():
    from ixai.utils.validators.loss import validate_loss_function
    out = []
    for cls in user_defined_metrics():
        with warnings.catch_warnings():
            warnings.simplefilter("ignore")
            loss = validate_loss_function(cls())
        out.append(("user:" + cls.__name__, cls, loss._dict_input_metric))
    return out


def gen_pair(rng, dict_metric, style):
    if dict_metric:
        y = rng.choice([0, 1])
        if rng.random() < 0.4:
            # the same probability VALUES come back under the other labels / in the other key order: the loss depends on which label
            # carries which probability, not on the sequence of values
            p = rng.choice([0.25, 0.125, 0.75])
            return (y, {1: 1 - p, 0: p}) if rng.random() < 0.5 else (y, {0: 1 - p, 1: p})
        p = rng.random()
        return y, {0: 1 - p, 1: p}
    if style == "class":
        return rng.choice([0, 1, 2]), {"output": rng.choice([0, 1, 2])}
    if style == "strlabel":
        labs = ["0", "1", "2", "cat", "1e3", "nan"]
        return rng.choice(labs), {"output": rng.choice(labs)}
    if style == "bool":
        return rng.choice([True, False]), {"output": rng.choice([True, False])}
    return round(rng.uniform(-3, 3), 3), {"output": round(rng.uniform(-3, 3), 3)}


def fresh_value(cls, y, p, dict_metric):
    m = cls()
    arg = p if dict_metric else p.get("output", 0)
    m.update(y_true=y, y_pred=arg)
    return m.get()


def same(a, b):
    if isinstance(a, float) and isinstance(b, float):
        if math.isnan(a) and math.isnan(b):
            return True
        if a == b:                      # also equal infinities
            return True
        return abs(a - b) <= 1e-9 * max(1.0, abs(a), abs(b))
    return a == b


def metric_history_fails(chk, name, cls, dict_metric, ncalls):
    from ixai.utils.validators.loss import validate_loss_function
    rng = chk.rng
    for style in (["prob"] if dict_metric else ["real", "class", "bool", "strlabel"]):
        shared = cls()
        try:
            from river.metrics.base import MeanMetric as _MM
            mean_metric = isinstance(shared, _MM) and type(shared).__name__ in ("MAE", "MSE", "CubedError", "WithinOne")
        except Exception:
            mean_metric = False
        with warnings.catch_warnings():
            warnings.simplefilter("ignore")
            adapters = [validate_loss_function(shared) for _ in range(3)]
        try:
            base = shared.get()
            fresh_base = cls().get()
        except Exception:
            continue
        if not same(base, fresh_base):
            return f"after validation the metric reports {base!r}, a fresh one {fresh_base!r}"
        received = []
        orig_update = shared.update

        def spy(y_true, y_pred, *a, **k):
            received.append(y_pred)
            return orig_update(y_true, y_pred, *a, **k)
        try:
            shared.update = spy
        except Exception:
            pass
        sign = -1.0 if getattr(shared, "bigger_is_better", False) else 1.0
        done = 0
        prev = None
        for t in range(ncalls):
            y, p = gen_pair(rng, dict_metric, style)
            if style == "real" and mean_metric and rng.random() < 0.08:
                # a diverged model: one non-finite prediction in an otherwise ordinary stream (a fresh running-mean metric reports
                # inf for it, and is fresh again after the revert); everything after it must be unaffected
                p = {"output": rng.choice([float("inf"), float("-inf")])}
            if prev is not None and t % 4 == 3:
                # the caller reuses ONE prediction dict object and refreshes it in place, same target: still a new evaluation
                y0, p0 = prev
                p0.clear()
                p0.update(p)
                y, p = y0, p0
            prev = (y, p)
            try:
                want = fresh_value(cls, y, p, dict_metric)
            except Exception:
                continue  # this pair is not in the metric's domain
            ad = rng.choice(adapters)
            pc = copy.deepcopy(p)
            try:
                got = ad(y, p)
            except Exception as ex:
                return f"call {t + 1} ({style}) raised {core.err_kind(ex)}: {ex} although a fresh metric accepts the pair"
            done += 1
            if p != pc:
                return f"call {t + 1}: the prediction dict was modified"
            if not same(got, want * sign):
                return (f"call {t + 1} ({style}) y_true={y!r} y_pred={p!r}: returned {got!r}, a fresh metric reports {want!r} "
                        f"(bigger_is_better={sign < 0}) so {want * sign!r} was expected")
            now = shared.get()
            if not same(now, base):
                return f"after call {t + 1} the shared metric reports {now!r} instead of {base!r}"
            if received:
                r = received[-1]
                if dict_metric and not isinstance(r, dict):
                    return f"dict-based metric received {r!r}"
                if not dict_metric and isinstance(r, dict):
                    return f"single-value metric received the whole dict {r!r}"
        chk.stat("metric_calls", done)
    return None


def exact_tie(chk, n):
    """MAE / MSE adapters in exact arithmetic vs Lean meanMetric"""
    import river.metrics as rm
    from ixai.utils.validators.loss import validate_loss_function
    reqs, impls = [], []
    for i in range(n):
        sq = chk.rng.random() < 0.5
        m = rm.MSE() if sq else rm.MAE()
        with warnings.catch_warnings():
            warnings.simplefilter("ignore")
            ads = [validate_loss_function(m) for _ in range(2)]
        calls, outs = [], []
        ok = True
        for t in range(chk.rng.randint(1, 8)):
            y, p = Q(chk.rng.randint(-9, 9), chk.rng.randint(1, 4)), Q(chk.rng.randint(-9, 9), chk.rng.randint(1, 4))
            try:
                v = chk.rng.choice(ads)(y, {"output": p})
                outs.append(rs(v))
            except Exception as ex:
                ok = False
                break
            calls.append([rs(y), rs(p)])
        if not ok:
            chk.stat("exact_tie_skipped")
            continue
        try:
            fg = rs(m.get())
        except Exception:
            fg = None
        reqs.append({"op": "riverloss", "squared": sq, "bib": False, "calls": calls})
        impls.append(({"metric": "MSE" if sq else "MAE", "calls": calls}, {"losses": outs, "final_get": fg}))
        chk.case({"exact": True, "metric": "MSE" if sq else "MAE", "calls": calls}, nontrivial=len(calls) >= 2, sample=(i < 2))
    return reqs, impls


def run(tier="quick", seed=0, replay=None):
    chk = core.Check("C13", tier, seed, "proof")
    chk.rule = ("every metric class of the installed river accepted by validate_loss_function x value styles (real / class label / bool, "
                "or probability dicts) x interleaved histories of 40 (quick) / 200 (thorough) calls through 3 adapters sharing the "
                "metric; exact-arithmetic MAE/MSE histories vs the Lean model. Non-trivial: >= 2 calls; distinct by hash.")
    chk.trusted = ["Lean 4.33.0 kernel", "axioms propext/Classical.choice/Quot.sound",
                   "hand-written model Model/RiverLoss.lean tied by this correspondence (MAE, MSE)",
                   "river's metric classes (outside /repo): the hypothesis `revert undoes update from fresh` is MONITORED here, not proved"]
    chk.assumptions = ["C13 is partial: adapter protocol proved over an abstract metric; river's 40-odd metric implementations only monitored",
                       "float comparison with relative tolerance 1e-9"]
    if replay:
        print(open(replay).read())
        return 1
    core.lean_stage(chk, "C13")
    core.soft_bridge(chk, props=("GenRiverLoss",))
    from harness import cover
    from harness import fingerprint
    fingerprint.direct(chk, ['ixai/utils/wrappers/river.py', 'ixai/utils/validators/loss.py'])
    _cv = cover.Cover(['ixai/utils/wrappers/river.py', 'ixai/utils/validators/loss.py'])
    _cv.__enter__()
    quick = tier == "quick"
    metrics = accepted_metrics()
    chk.extra["accepted_metrics"] = [n for n, _, _ in metrics]
    if len(metrics) < 10:
        chk.tie_failure("river", f"only {len(metrics)} river metrics accepted by validate_loss_function: {[n for n, _, _ in metrics]}")
    try:
        user = accepted_user_metrics()
    except Exception as ex:
        user = []
        chk.violation("user-metric-rejected", f"a user-defined river metric is not accepted as loss: {core.err_kind(ex)}: {ex}", {})
    chk.extra["user_defined_metrics"] = [[n, "dict" if dm else "single", "bigger" if cls().bigger_is_better else "smaller"] for n, cls, dm in user]
    for name, cls, dm in metrics + user:
        chk.case({"metric": name, "dict_input": dm}, nontrivial=True, sample=(name in ("MAE", "CrossEntropy", "Accuracy")))
        try:
            f = metric_history_fails(chk, name, cls, dm, chk.count(40, 200))
        except Exception as ex:
            f = None
            chk.stat("metric_harness_error:" + name)
        if f:
            chk.violation(f"metric:{name}", f"{'user-defined river metric ' + name[5:] if name.startswith('user:') else 'river.metrics.' + name} as loss: {f}", {"metric": name})
    # plain callables (not river metrics) must pass through validate_loss_function untouched
    from ixai.utils.validators.loss import validate_loss_function as _vlf
    for fn in (lambda y_true, y_prediction: 0.0, abs, max):
        chk.case({"plain_callable": repr(fn)[:40]}, nontrivial=True, sample=False)
        try:
            out = _vlf(fn)
        except Exception as ex:
            chk.violation("plain-callable", f"validate_loss_function raised {type(ex).__name__} on a plain callable", {"callable": repr(fn)})
            continue
        if out is not fn:
            chk.tie_failure("correspondence:validate_loss_function", f"a plain callable {fn!r} is not returned unchanged (got {out!r})")
    reqs, impls = exact_tie(chk, chk.count(40, 400))
    if core.driver_available():
        try:
            answers = core.run_driver(reqs)
        except Exception as ex:
            chk.tie_failure("driver", f"model driver failed: {ex}")
            answers = []
        ndis = 0
        for ans, (desc, impl) in zip(answers, impls):
            chk.stat("model_vs_impl_compared")
            model = {"losses": ans.get("losses"), "final_get": ans.get("final_get")}
            if model != impl and ndis < 5:
                ndis += 1
                chk.tie_failure("correspondence:RiverMetricToLossFunction", f"{desc}: impl={impl} model={model}")
    else:
        chk.tie_failure("driver", "model driver not built")
    _cv.__exit__(None, None, None)
    cover.gate(chk, _cv, only_functions=['RiverMetricToLossFunction', '_get_loss_function_from_river_metric', 'validate_loss_function'])
    chk.exhaustive = False
    chk.extra["explanation"] = ("loss_pure / probe_leaves_fresh are theorems over an abstract metric with `revert undoes update from fresh`; "
                                "meanMetric satisfies it (proved). The real adapter is compared with the model on MAE/MSE in exact arithmetic; "
                                "the hypothesis and the property are monitored on every accepted river metric.")
    return chk.finish()
