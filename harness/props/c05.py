"""C05 — batch and interval SAGE: efficiency over the explained data; interval schedule.

Stage A: Props/C05.lean (batch_values_are_means, batch_efficiency(_faithful), interval_schedule, interval_state).
Stage B: real BatchSage (explain_many, explain_many_original, explain_one) and IntervalSage in exact arithmetic vs the
         Lean model on the recorded callbacks; the sum identity and the schedule evaluated directly on the real objects
         (number of model evaluations from the call log).
"""
import random as pyrandom
import warnings

from harness import core, explain, rng as hrng
from harness.q import Q, rs
from harness.props import _expl


def batch_case(chk, d, N, n_inner, mode, model_kind, loss_kind, imputer_kind, positional=False):
    rng = chk.rng
    rig = explain.Rig(rng, kind="batch", d=d, names_kind=rng.choice(["str", "int", "mixed"]), n_inner=n_inner,
                      storage_kind="batch", storage_size=1, imputer_kind=imputer_kind, model_kind=model_kind, loss_kind=loss_kind,
                      positional=positional)
    data = [(rig.gen_x(), rig.gen_y()) for _ in range(N)]
    for x, y in data[:-1] if mode in ("one", "one-original") else data:
        rig.ex.update_storage(x, y)
    rig.log, rig.imp_calls = [], []
    rig.draws = hrng.Scripted(pyrandom.Random(rng.randrange(10 ** 9)), real_fn=lambda r: r.random())
    nlog0 = len(rig.model_log)
    err = None
    try:
        with warnings.catch_warnings():
            warnings.simplefilter("ignore")
            with rig.draws.installed():
                xs, ys = [a for a, _ in data], [b for _, b in data]
                if mode == "many":
                    ret = rig.ex.explain_many(xs, ys, verbose=False)
                elif mode == "original":
                    ret = rig.ex.explain_many_original(xs, ys, verbose=False)
                elif mode == "one-original":
                    ret = rig.ex.explain_one(data[-1][0], data[-1][1], original_sage=True, verbose=False)
                else:
                    ret = rig.ex.explain_one(data[-1][0], data[-1][1], verbose=False)
    except Exception as ex:
        err = f"{core.err_kind(ex)}: {ex}"
        ret = None
    desc = {"mode": mode, "d": d, "N": N, "n_inner": n_inner, "model": model_kind, "loss": loss_kind, "imputer": imputer_kind, "positional_model": positional,
            "data": [([rs(v) for v in rig.xlist(x)], rs(y)) for x, y in data[:3]]}
    if err:
        return rig, desc, f"raised {err}", None
    values = rig.fdict(ret)
    draws = rig.draws
    rig.draws = None
    perms_drawn = [list(p) for k, _, p in draws.log if k == "perm"]
    obs = []
    mlog = rig.model_log[nlog0 + N:]  # after the batch call
    for i, (x, y) in enumerate(data):
        if mode in ("original", "one-original"):
            perm = perms_drawn[i] if i < len(perms_drawn) else None
            if perm is None:
                return rig, desc, "no feature order drawn for an observation", None
            calls = mlog[i * d * n_inner:(i + 1) * d * n_inner]
            imp = []
            for j in range(d):
                T = sorted(set(range(d)) - set(perm[:j + 1]))
                imp.append([T, [o for _, o in calls[j * n_inner:(j + 1) * n_inner]]])
        else:
            calls = rig.imp_calls[i * d:(i + 1) * d]
            remaining = list(range(d))
            perm = []
            for c in calls:
                gone = [f for f in remaining if f not in c["subset"]]
                if len(gone) != 1:
                    return rig, desc, f"imputer subsets {[c['subset'] for c in calls]} do not reveal one feature at a time", None
                perm.append(gone[0])
                remaining.remove(gone[0])
            imp = [[c["subset"], c["preds"]] for c in calls]
        obs.append({"x": [rs(v) for v in rig.xlist(x)], "y": rs(y), "perm": perm, "imp": imp})
    # direct oracle: the values sum to the mean over observations of (loss of mean prediction - loss of own prediction)
    outs = [rig._model_one(x) for x, _ in data]
    labels = []
    for o in outs:
        for l in o:
            if l not in labels:
                labels.append(l)
    marg = {l: sum((o.get(l, 0) for o in outs), Q(0)) / len(outs) for l in labels}
    saved_calls, saved_log = rig.calls, list(rig.log)
    rhs = sum((rig.loss_fn(y, marg) - rig.loss_fn(y, o) for (x, y), o in zip(data, outs)), Q(0)) / N
    total = sum((Q(v) if not isinstance(v, str) else Q(__import__("fractions").Fraction(v)) for _, v in values), Q(0))
    fail = None
    if total != rhs:
        fail = f"values sum to {rs(total)} but the mean over the {N} observations of loss(mean prediction) - loss(own prediction) is {rs(rhs)}"
    req = {"op": "batch_run", "names": list(range(d)), "data": obs}
    req.update(rig.tables())
    return rig, desc, fail, (req, values)


def interval_case(chk, d, L, SL, ncalls, n_inner):
    rng = chk.rng
    rig = explain.Rig(rng, kind="interval", d=d, names_kind="str", n_inner=n_inner, imputer_kind="joint",
                      model_kind=rng.choice(["scalar", "multi"]), loss_kind="arbitrary", interval_length=L, storage_length=SL)
    calls = []
    prev_values = rig.fdict(rig.ex.importance_values)
    stored = []
    fail = None
    desc = {"interval_length": L, "storage_length": SL, "d": d, "n_inner": n_inner, "calls": []}
    for t in range(1, ncalls + 1):
        upd = rng.random() < 0.8 or not stored
        force = rng.random() < 0.2
        x, y = rig.gen_x(), rig.gen_y()
        rec = rig.step(x=x, y=y, update_storage=upd, force_explain=force, verbose=False)
        desc["calls"].append({"update_storage": upd, "force": force})
        if upd:
            stored.append(([rs(v) for v in rig.xlist(x)], rs(y)))
        if rec["error"] is not None:
            fail = f"call {t} raised {rec['error']}: {rec.get('error_text')}"
            break
        recompute = force or (t % L == 0)
        window = stored[-SL:]
        got_window = rig.storage_rows()
        values = rec["ret"]
        if rec["seen"] != t:
            fail = f"after call {t}: seen_samples = {rec['seen']}"
            break
        if got_window != [w[0] for w in window]:
            fail = f"after call {t}: the window holds {got_window}, expected the last {SL} stored observations {[w[0] for w in window]}"
            break
        if not recompute:
            if rec["model_calls"] or rec["loss_calls"]:
                fail = f"call {t} is not due (interval_length={L}, not forced) but evaluated the model {rec['model_calls']} times"
                break
            if values != prev_values:
                fail = f"call {t} is not due but returned {values} instead of the previous values {prev_values}"
                break
        else:
            if rec["model_calls"] == 0:
                fail = f"call {t} is due (forced={force}) but did not evaluate the model"
                break
            nwin = len(window)
            icalls = rec["imp_calls"]
            if len(icalls) != nwin * d:
                fail = f"call {t}: {len(icalls)} imputer calls for a window of {nwin} observations and {d} features"
                break
        # record for the model
        wobs = []
        if recompute and fail is None:
            for i in range(len(window)):
                cs = rec["imp_calls"][i * d:(i + 1) * d]
                remaining, perm = list(range(d)), []
                for c in cs:
                    gone = [f for f in remaining if f not in c["subset"]]
                    if len(gone) != 1:
                        perm = None
                        break
                    perm.append(gone[0])
                    remaining.remove(gone[0])
                if perm is None:
                    fail = f"call {t}: imputer subsets do not reveal one feature at a time"
                    break
                wobs.append({"perm": perm, "imp": [[c["subset"], c["preds"]] for c in cs]})
        calls.append({"x": rec["x"], "y": rec["y"], "update_storage": upd, "force": force, "window": wobs,
                      "impl": {"values": values, "seen": rec["seen"], "recomputed": rec["model_calls"] > 0, "window": got_window}})
        prev_values = values
        if fail:
            break
    req = {"op": "interval_run", "names": list(range(d)), "interval_length": L, "storage_length": SL,
           "calls": [{k: c[k] for k in ("x", "y", "update_storage", "force", "window")} for c in calls]}
    req.update(rig.tables())
    return rig, desc, fail, (req, [c["impl"] for c in calls])


def run(tier="quick", seed=0, replay=None):
    chk = core.Check("C05", tier, seed, "proof")
    chk.rule = ("BatchSage: mode in explain_many / explain_many_original / explain_one, d 1..3, N 1..5 observations, n_inner 1..2, "
                "scalar/multi/growing models, arbitrary/squared loss, joint/product imputer. IntervalSage: all (interval_length, "
                "storage_length) in {1..3}x{1..3} (quick) / {1..4}^2 (thorough), 6..8 calls with random update_storage / force flags. "
                "Non-trivial: >= 2 observations or >= 2 calls; distinct by hash.")
    chk.trusted = ["Lean 4.33.0 kernel", "axioms propext/Classical.choice/Quot.sound",
                   "hand-written model Model/Explainer.lean (batchSage, intervalStep) tied by this correspondence; window storage kernel by translation",
                   "driver JSON glue; harness.q.Q"]
    chk.assumptions = ["original mode: the explained names cover every feature the model reads", "targets are stored (store_targets=True)"]
    if replay:
        print(open(replay).read())
        return 1
    core.lean_stage(chk, "C05")
    core.soft_bridge(chk, props=("GenBatch", "GenInterval", "GenMeanOutput"))
    from harness import cover
    from harness import fingerprint
    fingerprint.direct(chk, ['ixai/explainer/sage/batch.py', 'ixai/explainer/sage/interval.py', 'ixai/explainer/base.py'])
    _cv = cover.Cover(['ixai/explainer/sage/batch.py', 'ixai/explainer/sage/interval.py', 'ixai/explainer/base.py'])
    _cv.__enter__()
    quick = tier == "quick"
    reqs, impls = [], []
    for i in range(chk.count(45, 500)):
        mode = ["many", "original", "one", "one-original"][i % 4]
        d, N, n_inner = chk.rng.randint(1, 3), chk.rng.randint(1, 5), chk.rng.randint(1, 2)
        rig, desc, fail, tie = batch_case(chk, d, N, n_inner, mode, chk.rng.choice(["scalar", "multi", "grow"]),
                                          chk.rng.choice(["arbitrary", "squared"]), chk.rng.choice(["joint", "product"]),
                                          positional=(i % 5 == 4 and d >= 2))
        chk.case(desc, nontrivial=N >= 2)
        chk.stat(f"batch:{mode}")
        if fail:
            chk.violation(f"batch:{mode}", f"BatchSage.{ {'many': 'explain_many', 'original': 'explain_many_original', 'one': 'explain_one', 'one-original': 'explain_one(original_sage=True)'}[mode] } "
                          f"(d={d}, {N} observations, n_inner={n_inner}): {fail}", desc)
        elif tie:
            reqs.append(tie[0])
            impls.append(("batch", desc, {"values": tie[1]}))
    R = (1, 2, 3) if quick else (1, 2, 3, 4)
    for L in R:
        for SL in R:
            for rep in range(chk.count(1, 4)):
                d, n_inner = chk.rng.randint(1, 2), 1
                rig, desc, fail, tie = interval_case(chk, d, L, SL, chk.rng.randint(6, 8), n_inner)
                chk.case(desc, nontrivial=True)
                chk.stat("interval")
                if fail:
                    chk.violation("interval", f"IntervalSage(interval_length={L}, storage_length={SL}): {fail}", desc)
                elif tie:
                    reqs.append(tie[0])
                    impls.append(("interval", desc, {"steps": tie[1]}))
    if core.driver_available():
        try:
            answers = core.run_driver(reqs)
        except Exception as ex:
            chk.tie_failure("driver", f"model driver failed: {ex}")
            answers = []
        nv = 0
        for ans, (kind, desc, impl) in zip(answers, impls):
            chk.stat("model_vs_impl_compared")
            if "error" in ans:
                chk.tie_failure("driver", ans["error"])
                continue
            if kind == "batch":
                m = core.jnorm(ans["values"])
                i = core.jnorm(impl["values"])
            else:
                m = core.jnorm([{k: s[k] for k in ("values", "seen", "recomputed", "window")} for s in ans["steps"]])
                i = core.jnorm(impl["steps"])
            if m != i and nv < 5:
                nv += 1
                chk.violation(f"spec:{kind}", f"{kind} SAGE {desc}: returned {str(i)[:300]} but the specified values (average over observations "
                              f"of each feature's chain contribution / schedule) are {str(m)[:300]}", dict(desc, expected=m, observed=i))
    else:
        chk.tie_failure("driver", "model driver not built")
    _cv.__exit__(None, None, None)
    cover.gate(chk, _cv, only_functions=['BatchSage', 'IntervalSage', '_get_mean_model_output'])
    chk.exhaustive = False
    chk.extra["explanation"] = ("Theorems about batchSage/intervalStep for every data set, callbacks, orders, rows and schedules; tied to "
                                "batch.py/interval.py by exact-arithmetic correspondence; sum identity and schedule evaluated on the real objects.")
    return chk.finish()
