"""C03 — incremental SAGE credits each feature its loss reduction along the chain.

Stage A: Props/C03.lean (`sage_refines_spec`, `imputer_gets_complement`).
Stage B: real IncrementalSage in exact arithmetic vs the Lean spec on the recorded callbacks: return value, importance
         values, variances, marginal prediction, marginal and model loss after every call; and the subsets the imputer
         received against the complement of the revealed features for the order the implementation drew.
"""
from harness import core, explain
from harness.q import Q, rs
from harness.props import _expl

OBS = ["importance", "variance", "marginal_loss", "model_loss", "marginal_prediction"]


def run(tier="quick", seed=0, replay=None):
    chk = core.Check("C03", tier, seed, "proof")
    chk.rule = ("IncrementalSage configurations from the explainer configuration space (see C01) incl. growing label sets and "
                "loss_bigger_is_better, streams of 3..6 calls. Non-trivial: at least one explained call; distinct by hash.")
    chk.trusted = ["Lean 4.33.0 kernel", "axioms propext/Classical.choice/Quot.sound",
                   "hand-written model Model/Explainer.lean (sageStep, sageChain) tied by this correspondence",
                   "driver JSON glue; harness.q.Q; callbacks recorded as finite tables"]
    chk.assumptions = ["exact arithmetic (floats: C20)"]
    if replay:
        print(open(replay).read())
        return 1
    core.lean_stage(chk, "C03", extra_props=["E2Eb"])
    core.soft_bridge(chk)
    from harness import cover
    from harness import fingerprint
    fingerprint.direct(chk, ['ixai/explainer/sage/incremental.py', 'ixai/explainer/base.py', 'ixai/utils/tracker/multi_value.py'])
    _cv = cover.Cover(['ixai/explainer/sage/incremental.py', 'ixai/explainer/base.py', 'ixai/utils/tracker/multi_value.py'])
    _cv.__enter__()
    quick = tier == "quick"

    def extra(rig, cfg):
        d = cfg["d"]
        for t, rec in enumerate(rig.steps[1:], start=1):
            if rec["error"] is not None:
                continue
            drawn = rec["perm_drawn"][-1] if rec["perm_drawn"] else None
            subsets = [c["subset"] for c in rec["imp_calls"]]
            if drawn is not None and len(drawn) == d:
                want = [sorted(set(range(d)) - set(drawn[:j + 1])) for j in range(d)]
                if subsets != want:
                    chk.violation("imputer-subsets", f"IncrementalSage {_expl.cfg_desc(cfg)} call {t + 1}: drew order {drawn} but the "
                                  f"imputer received subsets {subsets}; the complement of the revealed features is {want}",
                                  _expl.replay_payload(rig, cfg, t))
                    return
            elif rec["perm"] is None or len(rec["perm"]) != d:
                chk.violation("imputer-subsets", f"IncrementalSage {_expl.cfg_desc(cfg)} call {t + 1}: imputer subsets {subsets} do not "
                              f"reveal the features one at a time", _expl.replay_payload(rig, cfg, t))
                return
            if rec["ret"] != rec["est"]["importance"]:
                chk.violation("return-value", f"IncrementalSage {_expl.cfg_desc(cfg)} call {t + 1}: returned {rec['ret']} but "
                              f"importance_values is {rec['est']['importance']}", _expl.replay_payload(rig, cfg, t))
                return
    _expl.long_stream_probe(chk, "sage", ["ixai/explainer/sage/incremental.py", "ixai/explainer/base.py", "ixai/utils/tracker/multi_value.py"],
                            "IncrementalSage")
    _expl.spec_equality_check(chk, "C03", "sage", OBS, chk.count(70, 700), extra, "IncrementalSage")
    _cv.__exit__(None, None, None)
    cover.gate(chk, _cv, only_functions=['IncrementalSage', 'BaseIncrementalFeatureImportance.__init__', 'BaseIncrementalFeatureImportance.importance_values', 'BaseIncrementalFeatureImportance.variances', '_get_mean_model_output', 'MultiValueTracker'])
    chk.exhaustive = False
    chk.extra["explanation"] = ("sage_refines_spec: every tracker is the fold of the base statistic over the per-observation quantities "
                                "defined by the chain (loss before minus loss after, imputer gets the complement); the real class is "
                                "compared with that spec on recorded callbacks in exact arithmetic.")
    return chk.finish()
