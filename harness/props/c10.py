"""C10 — Welford and exponential-smoothing trackers equal their closed forms.

Stage A: theorems of Props/C10.lean over the kernels regenerated from ixai/utils/tracker/*.py.
Stage B: translation validation — the generated Lean kernels (driver, K = Rat) against the Python classes run on the
         same exact-rational streams;  plus the property oracle (closed forms) on the real classes.
"""
import itertools
from fractions import Fraction

from harness import core
from harness.q import Q, rs
from harness.util import shrink_list, rand_value

FILES = ["ixai/utils/tracker/base.py", "ixai/utils/tracker/welford.py", "ixai/utils/tracker/exponential_smoothing.py"]


def py_welford(vs):
    from ixai.utils.tracker import WelfordTracker
    t = WelfordTracker()
    for v in vs:
        r = t.update(v)
    return {"N": t.N, "get": t.get(), "mean": t.mean, "var": t.var, "std": t.std, "call": t()}


def py_es(alpha, vs, built_with=None):
    from ixai.utils.tracker import ExponentialSmoothingTracker
    if built_with is None:
        t = ExponentialSmoothingTracker(alpha)
    else:
        # the public attribute is tuned after construction, before the first value: the configured alpha is the tuned one
        t = ExponentialSmoothingTracker(built_with)
        t.alpha = alpha
    for v in vs:
        t.update(v)
    return {"N": t.N, "get": t.get(), "call": t()}


def cf_welford(vs):
    n = len(vs)
    if n == 0:
        return {"N": 0, "mean": Fraction(0), "var": Fraction(0)}
    m = sum(Fraction(v) for v in vs) / n
    return {"N": n, "mean": m, "var": sum((Fraction(v) - m) ** 2 for v in vs) / n}


def cf_es(alpha, vs):
    n = len(vs)
    a = Fraction(alpha)
    return {"N": n, "get": sum(a * (1 - a) ** (n - 1 - i) * Fraction(v) for i, v in enumerate(vs))}


def welford_fails(vs):
    """property oracle on the real class; statistics are READ AFTER EVERY UPDATE for short streams (a caching bug only shows
    when a reading precedes an update) and at a few prefixes for long ones; returns description of the failure or None"""
    from ixai.utils.tracker import WelfordTracker
    n = len(vs)
    if n == 0:
        points = [0]
    elif n <= 40:
        points = list(range(0, n + 1))
    else:
        points = sorted({0, 1, n // 3, n // 2, n - 1, n})
    try:
        t = WelfordTracker()
        ssum, sq = Fraction(0), Fraction(0)
        for i in range(n + 1):
            if i > 0:
                t.update(vs[i - 1])
                ssum += Fraction(vs[i - 1])
                sq += Fraction(vs[i - 1]) ** 2
            if i not in points:
                continue
            got = {"N": t.N, "get": t.get(), "mean": t.mean, "var": t.var, "std": t.std, "call": t()}
            m = ssum / i if i else Fraction(0)
            var = (sq / i - m * m) if i else Fraction(0)
            where = f" after {i} of {n} updates" if i != n else ""
            if got["N"] != i:
                return f"N={got['N']} expected {i}{where}"
            for k in ("mean", "get", "call"):
                if core.canon(got[k]) != core.canon(m):
                    return f"{k}={core.canon(got[k])} expected mean {core.canon(m)}{where}"
            if core.canon(got["var"]) != core.canon(var):
                return f"var={core.canon(got['var'])} expected {core.canon(var)}{where}"
            sd = float(got["std"])
            v = float(var)
            if not (sd >= 0 and abs(sd * sd - v) <= 1e-9 * max(1.0, abs(v))):
                return f"std={sd} is not the non-negative root of var={v}{where}"
    except Exception as ex:  # the property says it reports statistics for every finite stream
        return f"WelfordTracker raised {core.err_kind(ex)} on a finite stream"
    return None


def es_fails(alpha, vs):
    try:
        got = py_es(alpha, vs)
    except Exception as ex:
        return f"ExponentialSmoothingTracker raised {core.err_kind(ex)} on a finite stream"
    want = cf_es(alpha, vs)
    if got["N"] != want["N"]:
        return f"N={got['N']} expected {want['N']}"
    for k in ("get", "call"):
        if core.canon(got[k]) != core.canon(want["get"]):
            return f"{k}={core.canon(got[k])} expected {core.canon(want['get'])}"
    if vs:
        other = Q(1, 4) if Fraction(alpha) != Fraction(1, 4) else Q(3, 4)
        try:
            got2 = py_es(alpha, vs, built_with=other)
        except Exception as ex:
            return f"ExponentialSmoothingTracker built with alpha={rs(other)} and tuned to {rs(alpha)} raised {core.err_kind(ex)}"
        if got2["N"] != want["N"] or core.canon(got2["get"]) != core.canon(want["get"]):
            return (f"built with alpha={rs(other)}, `alpha` set to {rs(alpha)} before the first value: get={core.canon(got2['get'])} N={got2['N']}, "
                    f"the closed form for alpha={rs(alpha)} gives {core.canon(want['get'])}")
    return None


def gen_streams(chk, consts):
    rng = chk.rng
    quick = chk.tier == "quick"
    # complete small space
    maxlen = 4 if quick else 5
    for n in range(0, maxlen + 1):
        for vs in itertools.product([-2, -1, 0, 1, 2], repeat=n):
            yield "enum", [Q(v) for v in vs]
    # structured random
    nrand = 400 if quick else 5000
    int_consts = sorted({int(c) for c in consts if float(c).is_integer() and 2 <= c <= 5000})
    for i in range(nrand):
        kind = rng.choice(["short", "short", "mid", "sorted", "alternating", "const-jump", "neg", "mean-tie", "zeros"])
        n = rng.randint(1, 8) if kind == "short" else rng.randint(5, 40)
        vs = [rand_value(rng, consts) for _ in range(n)]
        if kind == "sorted":
            vs.sort()
        elif kind == "alternating":
            vs = [v if j % 2 == 0 else -v for j, v in enumerate(vs)]
        elif kind == "const-jump":
            vs = [vs[0]] * (n // 2) + [vs[-1] + 10 ** 6] * (n - n // 2)
        elif kind == "neg":
            vs = [-abs(v) for v in vs]
        elif kind == "mean-tie":
            # every third value equals the running mean of the values before it (ties with the tracked value)
            out = []
            for j, v in enumerate(vs):
                out.append(sum(out, Q(0)) / len(out) if (j % 3 == 2 and out) else v)
            vs = out
        elif kind == "zeros":
            vs = [Q(0) if rng.random() < 0.5 else v for v in vs]
        yield kind, vs
    # long integer streams, lengths around constants mined from the source (count-triggered behaviour)
    lengths = [64, 257] + [c + d for c in int_consts for d in (-1, 1, 2)] + ([1500] if quick else [1500, 6000])
    for n in sorted(set(x for x in lengths if 1 <= x <= 8000)):
        yield "long", [Q(rng.randint(-9, 9)) for _ in range(n)]


def numeric_type_fails(rng):
    """streams of NumPy scalars of several dtypes (also unsigned and narrow ones): the trackers must report the statistics of the
    NUMBERS, whatever their type (tolerance by dtype for float32 arithmetic)"""
    import numpy as np
    from ixai.utils.tracker import WelfordTracker, ExponentialSmoothingTracker
    for name, conv, tol in (("np.uint8", np.uint8, 1e-12), ("np.uint16", np.uint16, 1e-12), ("np.int8", np.int8, 1e-12), ("np.int64", np.int64, 1e-12),
                            ("np.float32", np.float32, 1e-4), ("np.float64", np.float64, 1e-12), ("bool", bool, 1e-12), ("int", int, 1e-12)):
        for rep in range(4):
            raw = [rng.randint(0, 1) for _ in range(6)] if conv is bool else [rng.randint(0, 120) for _ in range(rng.randint(2, 7))]
            if rep == 0 and conv is not bool:
                raw = [200 % 128 if conv is np.int8 else 200, 10, 3]       # a large value followed by smaller ones (unsigned wrap-around)
            vs = [conv(v) for v in raw]
            n = len(raw)
            m = sum(raw) / n
            var = sum((v - m) ** 2 for v in raw) / n
            with np.errstate(all="ignore"):
                w = WelfordTracker()
                for v in vs:
                    w.update(v)
                e = ExponentialSmoothingTracker(0.5)
                for v in vs:
                    e.update(v)
            es = sum(0.5 * 0.5 ** (n - 1 - i) * v for i, v in enumerate(raw))
            for label, got, want in (("Welford mean", float(w.mean), m), ("Welford var", float(w.var), var), ("smoothed value", float(e.get()), es)):
                if not abs(got - want) <= tol * max(1.0, abs(want)):
                    return f"{label} of the {name} stream {raw} is {got}, the numbers have {want}"
            if w.N != n or e.N != n:
                return f"update count {w.N}/{e.N} for a {name} stream of {n} values"
    return None


def run(tier="quick", seed=0, replay=None):
    chk = core.Check("C10", tier, seed, "proof")
    chk.rule = ("streams: all over {-2..2} up to length 4 (quick) / 5 (thorough); random rationals (mixture of small, "
                "fractional, 1e3..1e12, near source constants) in short/sorted/alternating/constant-then-jump/negative "
                "shapes; long integer streams with lengths around numeric constants of the source; alpha in "
                "{0,1/3,1/2,1,999/1000,1/1000}. A case is non-trivial when the stream is non-empty; distinct by hash of "
                "(tracker, alpha, stream).")
    chk.trusted = ["Lean 4.33.0 kernel", "axioms: propext, Classical.choice, Quot.sound (per theorem in coverage.theorems)",
                   "py2lean translator + field schema (validated here by differential execution)",
                   "driver JSON/Rat parser-printer", "harness.q.Q exact arithmetic"]
    chk.assumptions = ["tracker inputs are numbers of a field (int/Fraction/float without NaN/inf); floats are covered by C20",
                       "std: `** 0.5` is a square root on non-negative numbers (RealOps.sqrt hypothesis of welford_std)"]
    if replay:
        return do_replay(chk, replay)
    consts = core.mine_constants(FILES)
    proofs_ok = core.lean_stage(chk, "C10")
    alphas = [Q(0), Q(1, 3), Q(1, 2), Q(1), Q(999, 1000), Q(1, 1000)]
    reqs, expect = [], []
    for kind, vs in gen_streams(chk, consts):
        chk.stat(f"stream:{kind}")
        chk.stat("len<=4" if len(vs) <= 4 else ("len<=40" if len(vs) <= 40 else "len>40"))
        # ---- Welford: oracle on the real class
        chk.case({"tracker": "welford", "vs": [rs(v) for v in vs[:50]], "n": len(vs)}, nontrivial=len(vs) > 0)
        f = welford_fails(vs)
        if f:
            small = shrink_list(lambda c: welford_fails(c) is not None, vs)
            chk.violation("welford", f"WelfordTracker: {welford_fails(small)} on stream {[rs(v) for v in small]}",
                          {"tracker": "welford", "vs": [rs(v) for v in small]})
        # ---- ES
        a = alphas[len(vs) % 4] if kind == "enum" else (chk.rng.choice([Q(0), Q(1, 2), Q(1)]) if kind == "long" else chk.rng.choice(alphas))
        chk.case({"tracker": "es", "alpha": rs(a), "vs": [rs(v) for v in vs[:50]], "n": len(vs)}, nontrivial=len(vs) > 0)
        f = es_fails(a, vs)
        if f:
            small = shrink_list(lambda c: es_fails(a, c) is not None, vs)
            chk.violation("es", f"ExponentialSmoothingTracker(alpha={rs(a)}): {es_fails(a, small)} on stream "
                          f"{[rs(v) for v in small]}", {"tracker": "es", "alpha": rs(a), "vs": [rs(v) for v in small]})
        # ---- translation validation requests (model side)
        if core.driver_available() and len(vs) <= 300:
            reqs.append({"op": "welford", "vs": [rs(v) for v in vs]})
            expect.append(("welford", None, vs))
            reqs.append({"op": "es", "alpha": rs(a), "vs": [rs(v) for v in vs]})
            expect.append(("es", a, vs))
    chk.case({"numeric_type_sweep": ["np.uint8", "np.uint16", "np.int8", "np.int64", "np.float32", "np.float64", "bool", "int"]}, nontrivial=True, sample=False)
    try:
        f = numeric_type_fails(chk.rng)
    except Exception as ex:
        f = f"raised {core.err_kind(ex)}: {ex}"
    if f:
        chk.violation("numeric-type", f"trackers on NumPy-typed inputs: {f}", {"tracker": "welford", "vs": []})
    # ---- compare generated model with implementation
    if reqs:
        try:
            answers = core.run_driver(reqs)
        except Exception as ex:
            chk.tie_failure("driver", f"model driver failed: {ex}")
            answers = []
        ndis = 0
        for ans, (kind, a, vs) in zip(answers, expect):
            chk.stat("model_vs_impl_compared")
            try:
                got = py_welford(vs) if kind == "welford" else py_es(a, vs)
                impl = {k: core.canon(got[k]) for k in (("N", "get", "mean", "var") if kind == "welford" else ("N", "get"))}
            except Exception as ex:
                impl = {"error": core.err_kind(ex)}
            model = {k: core.jnorm(ans.get(k)) for k in impl} if "error" not in ans else ans
            if impl != model and ndis < 5:
                ndis += 1
                chk.tie_failure(f"translation-validation:{kind}",
                                f"generated Lean kernel and Python class disagree on {kind} alpha={rs(a) if a is not None else None} "
                                f"stream={[rs(v) for v in vs[:12]]}: impl={impl} model={model}")
    elif proofs_ok:
        chk.tie_failure("driver", "model driver not built")
    chk.exhaustive = False
    chk.extra["explanation"] = ("Stage A builds the 15 theorems of Props/C10.lean over the Lean kernels regenerated from the "
                                "current tracker sources; Stage B runs the real trackers on exact rationals against the "
                                "closed forms (oracle) and against the generated Lean kernels (translation validation).")
    chk.extra["source_constants"] = [str(c) for c in consts][:20]
    return chk.finish()


def do_replay(chk, path):
    import json
    r = json.load(open(path))
    rp = r.get("replay") or {}
    if not rp:
        print(json.dumps(r, indent=1))
        return 1
    vs = [Q(Fraction(s)) for s in rp["vs"]]
    f = welford_fails(vs) if rp["tracker"] == "welford" else es_fails(Q(Fraction(rp["alpha"])), vs)
    print(f"replay {path}: {'FAILS: ' + f if f else 'passes on the current tree'}")
    return 1 if f else 0
