"""shared machinery of the explainer checks (C01, C02, C03, C15, C16, C17): configuration space, running a case
through the real explainer and through the Lean model, comparing."""
import itertools

from harness import core, explain
from harness.q import Q, rs

ALPHAS = [Q(1), Q(1, 2), Q(1, 3), Q(1, 1000), Q(999, 1000)]
STORAGES = [("geom", 1), ("geom", 2), ("geom", 3), ("geom", 5), ("uniform", 2), ("uniform", 3), ("batch", 0),
            ("interval", 2), ("sequence", 1), ("geom1", 2)]


def gen_configs(chk, kind, count):
    """structured, mostly valid configurations from the explainers' own configuration space"""
    rng = chk.rng
    # a small complete grid first, then random
    grid = []
    for dynamic in (True, False):
        for d in (1, 2, 3):
            for mk in ("scalar", "grow"):
                grid.append(dict(kind=kind, d=d, dynamic=dynamic, alpha=Q(1, 3), n_inner=1 + (d % 2), model_kind=mk,
                                 names_kind=["str", "int", "mixed"][d % 3], storage_kind="geom", storage_size=2,
                                 imputer_kind="joint", loss_kind="arbitrary", lbb=(d == 2)))
    for cfg in grid[:count]:
        yield cfg
    # the documented default construction (storage=None, imputer=None) in both modes
    for dynamic in (True, False):
        yield dict(kind=kind, d=2, dynamic=dynamic, alpha=None, n_inner=1, model_kind="scalar", names_kind="str", storage_kind="geom",
                   storage_size=100, imputer_kind="joint", loss_kind="arbitrary", lbb=False, default_ctor=True)
    # a storage that already holds observations at the explainer's first call (shared / filled by hand), both modes
    for dynamic in (True, False):
        yield dict(kind=kind, d=2, dynamic=dynamic, alpha=Q(1, 2), n_inner=1, model_kind="scalar", names_kind="str", storage_kind="uniform",
                   storage_size=4, imputer_kind="joint", loss_kind="arbitrary", lbb=False, prefill=2)
    # a model whose label set grows and whose normalised mean prediction can have a zero sum
    yield dict(kind=kind, d=2, dynamic=False, alpha=Q(1, 2), n_inner=2, model_kind="grow", names_kind="mixed", storage_kind="geom",
               storage_size=2, imputer_kind="joint", loss_kind="arbitrary", lbb=False)
    for _ in range(max(0, count - len(grid))):
        sk, ss = rng.choice(STORAGES)
        yield dict(kind=kind, d=rng.randint(1, 4), dynamic=rng.random() < 0.6, alpha=rng.choice(ALPHAS),
                   n_inner=rng.randint(1, 3), model_kind=rng.choice(["scalar", "scalar", "multi", "grow"]),
                   names_kind=rng.choice(["str", "int", "float", "mixed", "intish"]), storage_kind=sk, storage_size=max(ss, 1),
                   imputer_kind=rng.choice(["joint", "joint", "product", "default"]),
                   loss_kind=rng.choice(["arbitrary", "arbitrary", "squared", "absolute"]), lbb=rng.random() < 0.3,
                   extra_features=rng.choice([0, 0, 1]), prefill=rng.choice([0, 0, 0, 1, 3]))


def cfg_desc(cfg):
    return {k: (rs(v) if isinstance(v, Q) else v) for k, v in cfg.items()}


def run_stream(chk, cfg, nsteps, perms=None, faults=0):
    """drive a fresh explainer through `nsteps` explain_one calls with varied per-call options; with `faults` > 0 that many
    callback invocations (model / loss / storage update, after the first call) raise once and the stream is resumed"""
    rig = explain.Rig(chk.rng, **cfg)
    if faults:
        # upper bound of invocations per explained call: 1 model + 2 loss + d * (n_max model + 1 loss) + 1 storage
        per = 4 + cfg["d"] * 4
        lo = 2  # the first call makes one storage update (invocation 0); start faults later
        rig.fail_at = {chk.rng.randrange(lo, lo + per * (nsteps - 1)): True for _ in range(faults)}
    for t in range(nsteps):
        kw = {}
        r = chk.rng.random()
        if r < 0.15:
            kw["update_storage"] = False if t > 0 else True
        if chk.rng.random() < 0.2 or (t == 1 and nsteps >= 4 and not faults):
            kw["n_inner_samples"] = chk.rng.randint(1, 3) if t != 1 else (cfg["n_inner"] % 3) + 1   # differs from the configured value
        perm = None
        if perms is not None and t >= 1 and t - 1 < len(perms):
            perm = perms[t - 1]
        rig.step(perm=perm, **kw)
    return rig


def exact_comparable(rig):
    """the documented default alpha 0.001 is a binary float: `1 - alpha` is then rounded by the interpreter, so the run is not in
    exact arithmetic and is compared with the property oracles only (not with the exact model)"""
    a = getattr(rig.ex, "_smoothing_alpha", None)
    return not (rig.dynamic and isinstance(a, float))


def model_answers(rigs):
    """one driver process for many rigs; returns list of answers (or raises); rigs that did not run in exact arithmetic get a stub"""
    reqs = [r.pure_request() for r in rigs if exact_comparable(r)]
    ans = iter(core.run_driver(reqs))
    return [next(ans) if exact_comparable(r) else {"skipped": True, "steps": []} for r in rigs]


def compare(rig, ans, observables):
    """per step, the first difference between implementation and model on the named observables"""
    diffs = []
    if ans.get("skipped"):
        return []
    if "error" in ans:
        return [(-1, "driver", ans["error"], None)]
    ok_steps = [(t, rec) for t, rec in enumerate(rig.steps) if rec["error"] is None]
    bad = [(t, rec) for t, rec in enumerate(rig.steps) if rec["error"] not in (None, "fault")]
    if bad:
        t, rec = bad[0]
        return [(t, "exception", rec["error"] + ": " + rec.get("error_text", ""), None)]
    for (t, rec), a in zip(ok_steps, ans["steps"]):
        m = core.jnorm(explain.est_from_model(a))
        impl = core.jnorm(rec["est"])
        for ob in observables:
            if ob in impl and impl[ob] != m.get(ob):
                diffs.append((t, ob, impl[ob], m.get(ob)))
                break
        if diffs:
            break
    return diffs


def replay_payload(rig, cfg, upto):
    return {"config": cfg_desc(cfg), "steps": [{k: rec[k] for k in ("x", "y", "kw", "perm", "rows_before", "est", "error")}
                                               for rec in rig.steps[:upto + 1]]}


def spec_equality_check(chk, pid, kind, observables, nconfigs, extra_case=None, label=""):
    """C02/C03-style check: the real explainer's observables must equal the Lean spec (pure model, proved to be the
    running statistic of the per-observation contributions) evaluated on the recorded callbacks; a difference on a
    property observable is a violation with the recorded stream as failing input."""
    rigs, cfgs = [], []
    for ci, cfg in enumerate(gen_configs(chk, kind, nconfigs)):
        nfaults = chk.rng.randint(1, 2) if ci % 4 == 3 else 0     # every fourth stream has callbacks that fail and is resumed
        rig = run_stream(chk, cfg, chk.rng.randint(3, 6) + (2 if nfaults else 0), faults=nfaults)
        if nfaults:
            chk.stat("streams_with_faults")
            chk.stat("faults_hit", sum(1 for r in rig.steps if r["error"] == "fault"))
            # a failing call must leave the estimates exactly as they were
            prev = None
            for t, r in enumerate(rig.steps):
                if r["error"] == "fault" and prev is not None and r["est"] != prev:
                    chk.violation("fault-changed-estimates", f"{label} {cfg_desc(cfg)}: a callback raised during call {t + 1} and the estimates changed "
                                  f"from {prev} to {r['est']}", replay_payload(rig, cfg, t))
                    break
                prev = r["est"]
        bad = [r for r in rig.steps if r["error"] not in (None, "fault")]
        if bad:
            r = bad[0]
            chk.violation("exception", f"{label} {cfg_desc(cfg)} raised {r['error']}: {r.get('error_text')}",
                          replay_payload(rig, cfg, rig.steps.index(r)))
        for t, r in enumerate(rig.steps):
            if r["error"] is None:
                f = imputer_inputs_fail(rig, r)
                if f:
                    chk.violation("imputed-inputs", f"{label} {cfg_desc(cfg)} call {t + 1}: {f}", replay_payload(rig, cfg, t))
                    break
        if extra_case:
            extra_case(rig, cfg)
        chk.case({"config": cfg_desc(cfg), "first_x": rig.steps[0]["x"], "calls": len(rig.steps),
                  "perms": [r["perm"] for r in rig.steps[1:]]}, nontrivial=len(rig.steps) > 1)
        chk.stat(f"d={cfg['d']}")
        chk.stat("dynamic" if cfg["dynamic"] else "static")
        chk.stat(f"model:{cfg['model_kind']}")
        chk.stat(f"imputer:{cfg['imputer_kind']}")
        chk.stat(f"storage:{cfg['storage_kind']}")
        rigs.append(rig)
        cfgs.append(cfg)
    try:
        answers = model_answers(rigs) if core.driver_available() else None
    except Exception as ex:
        chk.tie_failure("driver", f"model driver failed: {ex}")
        answers = []
    if answers is None:
        chk.tie_failure("driver", "model driver not built")
        answers = []
    nv = 0
    for rig, cfg, ans in zip(rigs, cfgs, answers):
        chk.stat("model_vs_impl_compared")
        diffs = compare(rig, ans, observables)
        if diffs and nv < 5:
            nv += 1
            t, ob, iv, mv = diffs[0]
            if ob in ("driver",):
                chk.tie_failure("driver", str(iv))
            elif ob == "exception":
                pass
            else:
                chk.violation(f"spec:{ob}", f"{label} {cfg_desc(cfg)} call {t + 1}: {ob} = {str(iv)[:300]} but the specified running "
                              f"statistic of the recorded per-observation contributions is {str(mv)[:300]}",
                              dict(replay_payload(rig, cfg, t), observable=ob, expected=mv, observed=iv))
    return rigs, cfgs, answers


def imputer_inputs_fail(rig, rec):
    """the model inputs made inside the imputer calls of one explain_one: outside the requested subset they equal the explained
    instance, inside it they are background values (a stored row's value for that feature / the configured default)"""
    x = rec["x"]
    rows = rec["rows_before"]
    n_eff = rec["kw"].get("n_inner_samples") or rig.n_inner       # a per-call override holds for that call only
    for c in rec["imp_calls"]:
        S = c["subset"]
        if c["preds"] is not None and rig.kind in ("pfi", "sage") and (c["n"] != n_eff or len(c["preds"]) != n_eff):
            return (f"imputer call for subset {S}: asked for {c['n']} inner samples and averaged {len(c['preds'])}, but the number in force for this "
                    f"call is {n_eff} (configured {rig.n_inner}, per-call override {rec['kw'].get('n_inner_samples')})")
        for z in c.get("inputs", []):
            for g in range(rig.d):
                if g not in S:
                    if z[g] != x[g]:
                        return f"imputer call for subset {S}: feature {rig.names[g]!r} outside the subset was changed from {x[g]} to {z[g]}"
                elif rig.imputer_kind == "default" and hasattr(rig, "default_values"):
                    want = rs(Q(rig.default_values[rig.names[g]]))
                    if z[g] != want:
                        return f"imputer call for subset {S}: feature {rig.names[g]!r} is {z[g]}, not the configured default {want}"
                elif rig.imputer_kind in ("joint", "product") and rows:
                    if not any(r[g] == z[g] for r in rows):
                        return f"imputer call for subset {S}: value {z[g]} of feature {rig.names[g]!r} is not that feature's value in any stored observation"
            if rig.imputer_kind == "joint" and rows and S:
                if not any(all(r[g] == z[g] for g in S) for r in rows):
                    return f"imputer call for subset {S} (joint strategy): the imputed values {[z[g] for g in S]} do not come from ONE stored observation"
    return None


# ----------------------------------------------------------------------------------------------------------------
# directed search for count-triggered behaviour: long streams, lengths around numeric constants of the changed source
# ----------------------------------------------------------------------------------------------------------------
class RunStat:
    """the configured running statistic (uniform mean / exponential smoothing from zero) in exact arithmetic"""

    def __init__(self, alpha):
        self.alpha, self.v, self.n = alpha, Q(0), 0

    def update(self, x):
        self.n += 1
        if self.alpha is None:
            self.v = self.v + (Q(x) - self.v) / self.n
        else:
            self.v = (1 - self.alpha) * self.v + self.alpha * Q(x)
        return self.v


class SpecDeviation(Exception):
    pass


def spec_replay(rig):
    """importance values / variances after every call recomputed from the RECORDED callbacks by the property's definition (Python
    replica of the Lean spec, used only by the long-stream search where the driver would be slow)"""
    from fractions import Fraction
    alpha = rig.effective_alpha() if rig.dynamic else None
    d = rig.d
    imp = [RunStat(alpha) for _ in range(d)]
    var = [RunStat(alpha) for _ in range(d)]
    loss = {(y, repr(cp)): Q(Fraction(v)) for (y, cp, v) in rig.loss_table.values()}
    model = {k: v for k, v in rig.model_table.items()}
    out = []
    started = False
    mp, margl, modell = {}, RunStat(alpha), RunStat(alpha)

    class _Never(dict):
        """recorded loss evaluations; a value the definition needs but the implementation never evaluated is a deviation"""
        def __missing__(self, key):
            raise SpecDeviation(f"the property's definition needs the loss of label {key[0]} at {key[1][:160]}, which the implementation "
                                f"never evaluated in this stream")
    loss = _Never(loss)
    for t, rec in enumerate(rig.steps):
        if rec["error"] is not None:
            out.append(None)
            continue
        if not started:
            started = True
            out.append({"importance": [], "variance": []})
            continue
        y = rec["y"]
        contrib = {}
        if rig.kind == "pfi":
            orig = loss[(y, repr(model[tuple(rec["x"])]))]
            for c in rec["imp_calls"]:
                f = c["subset"][0]
                ls = [loss[(y, repr(p))] for p in c["preds"]]
                contrib[f] = sum(ls, Q(0)) / len(ls) - orig
        else:
            pred = model[tuple(rec["x"])]                      # [[label, value]] sorted by label
            ml = loss[(y, repr(pred))]
            for l, v in pred:
                if l not in mp:
                    mp[l] = RunStat(alpha)
            for l in mp:
                mp[l].update(dict((a, Q(Fraction(b))) for a, b in pred).get(l, Q(0)))
            raw = {l: mp[l].v for l in mp}
            if len(raw) > 1:
                tot = sum(raw.values(), Q(0))
                raw = {l: (Q(0) if tot == 0 else v / tot) for l, v in raw.items()}
            mpn = sorted([[l, rs(v)] for l, v in raw.items()])
            prev = loss[(y, repr(mpn))]
            margl.update(prev)
            modell.update(ml)
            perm = rec["perm"]
            for f, c in zip(perm, rec["imp_calls"]):
                labels = []
                for p_ in c["preds"]:
                    for l, _ in p_:
                        if l not in labels:
                            labels.append(l)
                mean = sorted([[l, rs(sum((dict((a, Q(Fraction(b))) for a, b in p_).get(l, Q(0)) for p_ in c["preds"]), Q(0)) / len(c["preds"]))]
                               for l in labels])
                fl = loss[(y, repr(mean))]
                contrib[f] = prev - fl
                prev = fl
        for f in range(d):
            e = imp[f].update(contrib[f])
            var[f].update((contrib[f] - e) ** 2)
        o = {"importance": [[f, rs(imp[f].v)] for f in range(d)], "variance": [[f, rs(var[f].v)] for f in range(d)]}
        if rig.kind == "sage":
            off = 1 if rig.lbb else 0
            o["marginal_loss"] = rs(margl.v + off)
            o["model_loss"] = rs(modell.v + off)
        out.append(o)
    return out


def long_stream_probe(chk, kind, files, label, identity=None):
    """only when the modelled source changed (chk.boost > 1): streams whose length passes the integer constants of that source"""
    if chk.boost <= 1:
        return
    consts = core.mine_constants(files)
    ints = sorted({int(c) for c in consts if float(c).is_integer() and 4 <= c <= 2500})
    lengths = sorted({c + 3 for c in ints} | {40})[-3:]
    for L in lengths:
        for dynamic in (True, False):
            cfg = dict(kind=kind, d=2, dynamic=dynamic, alpha=Q(1, 2), n_inner=1, model_kind="scalar", names_kind="str",
                       storage_kind="geom", storage_size=3, imputer_kind="joint", loss_kind="squared", lbb=False)
            rig = explain.Rig(chk.rng, **cfg)
            chk.stat("long_stream_probes")
            bad = None
            for t in range(L):
                rec = rig.step()
                if rec["error"] is not None:
                    bad = (t, f"raised {rec['error']}: {rec.get('error_text')}")
                    break
                if identity is not None and t >= 1:
                    f = identity(rig)
                    if f:
                        bad = (t, f)
                        break
            if bad is None:
                try:
                    spec = spec_replay(rig)
                except SpecDeviation as dev:
                    spec = []
                    bad = (len(rig.steps) - 1, str(dev))
                except (KeyError, IndexError, ZeroDivisionError) as dev:
                    # the recorded behaviour does not have the shape the definition prescribes (e.g. a coalition was never imputed)
                    spec = []
                    bad = (len(rig.steps) - 1, f"the recorded callbacks cannot be replayed by the property's definition ({type(dev).__name__}: {dev}): "
                                               f"the imputer was asked for {[len(r.get('imp_calls', [])) for r in rig.steps[1:4]]} coalitions in the first explained calls, d = {rig.d}")
                for t, (rec, sp) in enumerate(zip(rig.steps, spec)):
                    if sp is None:
                        continue
                    diff = [k for k in sp if rec["est"].get(k) != sp[k]]
                    if diff:
                        bad = (t, f"{diff[0]} = {str(rec['est'].get(diff[0]))[:300]} differs from the running statistic of the recorded per-observation "
                                  f"quantities {str(sp[diff[0]])[:300]}")
                        break
            chk.case({"long_stream": L, "config": cfg_desc(cfg)}, nontrivial=True, sample=False)
            if bad:
                t, f = bad
                chk.violation("long-stream", f"{label} {cfg_desc(cfg)} after {t + 1} calls of a {L}-call stream: {f}"[:1500],
                              {"config": cfg_desc(cfg), "calls": t + 1, "stream_length": L})
                return
