"""C09 — GeometricReservoirStorage follows its inclusion law.

Stage A: Props/C09.lean (generated-kernel step lemmas, one-step law = Reservoir.stepE, closed-form retention law).
Stage B: translation validation of the generated kernel (scripted draws) and the EXACT distribution of the real class
         for small (k, n): acceptance probability on a threshold grid, slot range and slot use, and the inclusion
         probability of every arrival obtained by enumerating every accept/reject/slot script with its weight.
"""
import itertools
import random as pyrandom
from fractions import Fraction

from harness import core, rng as hrng, storages as S
from harness.q import Q, rs
from harness.props import c07

G = 12


def accept_cells(k, p, targets=False):
    """which grid cells u=(i+1/2)/G make a full reservoir accept the next arrival; also the requested slot ranges"""
    acc, ranges = [], set()
    for i in range(G):
        u = Q(2 * i + 1, 2 * G)
        d = hrng.Scripted(pyrandom.Random(0), reals=[u], idxs=[0])
        with d.installed():
            st = S.make_storage("geom", k, targets, p)
            for j in range(k):
                st.update({"id": j}, 1000 + j)
            before, _ = S.contents(st)
            st.update({"id": k}, 1000 + k)
            after, _ = S.contents(st)
        if after != before:
            acc.append(i)
        for kind, r, _ in d.log:
            if kind == "index":
                ranges.add(r)
    return acc, ranges


def exact_inclusion(k, p, n):
    """exact P(arrival t retained after n arrivals) for the real class, t = 0..n-1, by enumerating all scripts"""
    pe = Fraction(1, k) if p is None else Fraction(p)
    probs = [Fraction(0)] * n
    m = n - k
    total = Fraction(0)
    for script in itertools.product(range(k + 1), repeat=m):  # 0 reject, j+1 accept slot j
        w = Fraction(1)
        for s in script:
            w *= (1 - pe) if s == 0 else pe / k
        if w == 0:
            continue
        reals = [(Q(pe) / 2 if pe > 0 else Q(0)) if s else (Q(1 + pe) / 2) for s in script]
        idxs = [s - 1 if s else 0 for s in script]
        idxs = [i for i, s in zip(idxs, script) if s]
        d = hrng.Scripted(pyrandom.Random(0), reals=reals, idxs=idxs + [0] * 4)
        with d.installed():
            st = S.make_storage("geom", k, False, p)
            for j in range(n):
                st.update({"id": j}, None)
        ids, _ = S.contents(st)
        for t in ids:
            probs[t] += w
        total += w
    return probs, total


def law(k, pe, n, t):
    """closed form, t 0-based arrival index"""
    if t < k:
        return (1 - pe / k) ** (n - k)
    return pe * (1 - pe / k) ** (n - 1 - t)


def run(tier="quick", seed=0, replay=None):
    chk = core.Check("C09", tier, seed, "proof")
    chk.rule = ("capacity k in 1..3 (quick) / 1..4 (thorough), p in {default, 1/4, 1/3, 1/2, 1, 0}, n up to k+4 (k+5): (a) acceptance "
                "set on a 12-cell threshold grid, requested slot range; (b) exact inclusion probability of every arrival by "
                "enumerating all (k+1)^(n-k) accept/slot scripts; (c) generated kernel vs real class on random scripts. "
                "Non-trivial: n > k (a replacement can happen); distinct by hash of (k, p, n).")
    chk.trusted = ["Lean 4.33.0 kernel", "axioms propext/Classical.choice/Quot.sound", "py2lean translator (validated here)",
                   "P(U <= p) = p for U = random.random() uniform on [0,1) (granularity 2^-53 ignored)",
                   "random.randrange(k) uniform on range(k); draws independent"]
    chk.assumptions = ["0 <= p <= 1"]
    if replay:
        print(open(replay).read())
        return 1
    core.lean_stage(chk, "C09")
    quick = tier == "quick"
    kmax, extra = (3, 4) if quick else (4, 5)
    ps = [None, Q(1, 4), Q(1, 3), Q(1, 2), Q(1), Q(0)]
    for k in range(1, kmax + 1):
        for p in ps:
            pe = Fraction(1, k) if p is None else Fraction(p)
            # (a) acceptance probability and slot range
            acc, ranges = accept_cells(k, p)
            chk.case({"probe": "accept-grid", "k": k, "p": rs(p) if p is not None else None}, nontrivial=True)
            if (pe * G).denominator == 1:
                if len(acc) != pe * G or acc != list(range(len(acc))):
                    chk.violation("accept-probability",
                                  f"size {k}, p={pe}: a full reservoir accepts on grid cells {acc} of {G}, i.e. with probability "
                                  f"{Fraction(len(acc), G)} instead of {pe}", {"k": k, "p": str(pe), "cells": acc})
            if ranges - {k}:
                chk.violation("slot-range", f"size {k}: slot drawn from range {sorted(ranges)} instead of {k}",
                              {"k": k, "ranges": sorted(ranges)})
            # (b) exact inclusion probabilities
            for n in range(k, k + extra + 1):
                if (k + 1) ** (n - k) > 1300:
                    continue
                probs, total = exact_inclusion(k, p, n)
                chk.case({"exact-distribution": True, "k": k, "p": str(pe), "n": n,
                          "P(retained)": [str(x) for x in probs]}, nontrivial=n > k)
                chk.stat("scripts_enumerated", (k + 1) ** (n - k))
                if total != 1:
                    chk.tie_failure("enumeration", f"script weights sum to {total}")
                for t in range(n):
                    want = law(k, pe, n, t)
                    if probs[t] != want:
                        chk.violation("inclusion-law",
                                      f"size {k}, p={pe}, after {n} observations arrival {t + 1} is retained with probability "
                                      f"{probs[t]} instead of {want}", {"k": k, "p": str(pe), "n": n, "t": t + 1,
                                                                        "observed": str(probs[t]), "expected": str(want)})
                        break
    # (c) translation validation on random scripts (shared with C07)
    reqs, impls = [], []
    for _ in range(150 if quick else 1500):
        k = chk.rng.randint(1, 5)
        n = chk.rng.randint(0, 4 * k + 6)
        targets = chk.rng.random() < 0.5
        reals = [Q(chk.rng.randint(1, 99), 100) for _ in range(n + 2)]
        idxs = [chk.rng.randrange(k) for _ in range(n + 2)]
        p = chk.rng.choice([None, Q(1, 3), Q(1, 2), Q(1), Q(9, 10)])
        out, _ = c07.run_impl("geom", k, targets, p, n, list(reals), list(idxs))
        desc = {"kind": "geom", "size": k, "targets": targets, "p": rs(p) if p is not None else None, "n": n}
        chk.case(dict(desc, script=[rs(r) for r in reals[:6]]), nontrivial=n > k, sample=False)
        reqs.append({"op": "storage", "kind": "geom", "n": n, "targets": targets, "size": k,
                     "p": rs(p) if p is not None else None, "reals": [rs(r) for r in reals], "idxs": idxs})
        impls.append((desc, out))
    if core.driver_available():
        try:
            answers = core.run_driver(reqs)
        except Exception as ex:
            chk.tie_failure("driver", f"model driver failed: {ex}")
            answers = []
        ndis = 0
        for ans, (desc, out) in zip(answers, impls):
            chk.stat("model_vs_impl_compared")
            impl = {k: core.canon(v) for k, v in out.items() if k != "ranges"}
            model = core.jnorm({k: ans.get(k) for k in impl}) if "error" not in ans else ans
            if impl != model and ndis < 5:
                ndis += 1
                chk.tie_failure("translation-validation:geom", f"generated kernel and Python class disagree on {desc}: impl={impl} model={model}")
    else:
        chk.tie_failure("driver", "model driver not built")
    chk.exhaustive = True
    chk.extra["explanation"] = ("Theorems: one generated step = stepE (accept weight a, uniform slot), retention law "
                                "p(1-p/k)^(n-t) / (1-p/k)^(n-k) for all k, n, t, p; default p = 1/k; p = 1 always stores. The real class' "
                                "exact distribution (all scripts, weights from the ranges it requested) equals the closed form for the "
                                "listed sizes (exhaustive there).")
    return chk.finish()
