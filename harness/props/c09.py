"""C09 — GeometricReservoirStorage follows its inclusion law.

Stage A: Props/C09.lean (generated-kernel step lemmas, one-step law = Reservoir.stepE, closed-form retention law).
Stage B: translation validation of the generated kernel (scripted draws) and the EXACT distribution of the real class
         for small (k, n): acceptance probability on a threshold grid, slot range and slot use, and the inclusion
         probability of every arrival obtained by enumerating every accept/reject/slot script with its weight.
"""
import itertools
import random as pyrandom
from fractions import Fraction

from harness import core, rng as hrng, storages as S
from harness.q import Q, rs
from harness.props import c07

G = 60


def one_step_law(k, p, targets=False):
    """EXACT law of one update of a full reservoir of the real class: every outcome of every draw it makes is enumerated
    (index draws over the range it requests; real draws over a grid of G equal cells); returns P(new observation enters),
    {slot: P(enters at slot)}, requested index ranges, or an error text"""
    cells = [(Q(2 * i + 1, 2 * G), Fraction(1, G)) for i in range(G)]
    p_enter = Fraction(0)
    slots = {}
    ranges = set()

    def scenario(d):
        st = S.make_storage("geom", k, targets, p)
        for j in range(k):
            st.update({"id": j}, 1000 + j)
        n0 = len(d.trace)
        st.update({"id": k}, 1000 + k)
        ids, _ = S.contents(st)
        return ids, [t for t in d.trace[n0:]]
    try:
        for w, (ids, trace), _ in hrng.enumerate_outcomes(scenario, real_choices=cells):
            for kind, rg in trace:
                if kind == "index":
                    ranges.add(rg)
            if k in ids:
                p_enter += w
                slots[ids.index(k)] = slots.get(ids.index(k), Fraction(0)) + w
            if len(ids) != k:
                return None, None, None, f"reservoir holds {len(ids)} observations after an update of a full reservoir of size {k}"
    except Exception as ex:
        return None, None, None, f"raised {core.err_kind(ex)}: {ex}"
    return p_enter, slots, ranges, None


class Obs(dict):
    """an observation that compares equal to every other one with the same content (binary / categorical / constant features) but
    carries its arrival number"""
    def __init__(self, content, tag):
        super().__init__(content)
        self.tag = tag


def exact_inclusion(k, p, n, limit=4000, pool=None):
    """exact P(arrival t retained after n arrivals) for the real class, t = 0..n-1: every outcome of every draw the class
    makes is enumerated with weight 1/range for index draws; a real draw has the two outcomes `<= p` (weight p) and `> p`
    (weight 1-p), justified by the one-step law probe. Returns None when the outcome tree exceeds `limit`."""
    pe = Fraction(1, k) if p is None else Fraction(p)
    reals = [(v, w) for v, w in ((Q(pe) / 2, pe), (Q(1 + pe) / 2, 1 - pe)) if w > 0]
    probs = [Fraction(0)] * n
    total = Fraction(0)

    def scenario(d):
        st = S.make_storage("geom", k, False, p)
        if pool:
            # only `pool` distinct contents: equal observations arrive again and again; which ARRIVALS are held is read off the tags
            for j in range(n):
                st.update(Obs({"v": j % pool}, j), None)
            return [x.tag for x in st.get_data()[0]]
        for j in range(n):
            st.update({"id": j}, None)
        return S.contents(st)[0]
    try:
        for w, ids, _ in hrng.enumerate_outcomes(scenario, real_choices=reals, limit=limit):
            for t in ids:
                probs[t] += w
            total += w
    except RuntimeError as ex:
        if "limit" in str(ex):
            return None, None
        raise
    return probs, total


def law(k, pe, n, t):
    """closed form, t 0-based arrival index"""
    if t < k:
        return (1 - pe / k) ** (n - k)
    return pe * (1 - pe / k) ** (n - 1 - t)


def run(tier="quick", seed=0, replay=None):
    chk = core.Check("C09", tier, seed, "proof")
    chk.rule = ("capacity k in 1..3 (quick) / 1..4 (thorough), p in {default, 1/4, 1/3, 1/2, 1, 0}, n up to k+4 (k+5): (a) acceptance "
                "set on a 12-cell threshold grid, requested slot range; (b) exact inclusion probability of every arrival by "
                "enumerating all (k+1)^(n-k) accept/slot scripts; (c) generated kernel vs real class on random scripts. "
                "Non-trivial: n > k (a replacement can happen); distinct by hash of (k, p, n).")
    chk.trusted = ["Lean 4.33.0 kernel", "axioms propext/Classical.choice/Quot.sound", "py2lean translator (validated here)",
                   "P(U <= p) = p for U = random.random() uniform on [0,1) (granularity 2^-53 ignored)",
                   "random.randrange(k) uniform on range(k); draws independent"]
    chk.assumptions = ["0 <= p <= 1"]
    if replay:
        print(open(replay).read())
        return 1
    core.lean_stage(chk, "C09")
    quick = tier == "quick"
    kmax, extra = (3, 4) if quick else (4, 5)
    ps = [None, Q(1, 4), Q(1, 3), Q(1, 2), Q(2, 3), Q(3, 4), Q(9, 10), Q(1), Q(0)]
    for k in range(1, kmax + 1):
        for p in ps:
            pe = Fraction(1, k) if p is None else Fraction(p)
            # (a) exact law of one step: enters with probability p, into a uniformly chosen slot
            p_enter, slots, ranges, err = one_step_law(k, p)
            chk.case({"probe": "one-step-law", "k": k, "p": rs(p) if p is not None else None}, nontrivial=True)
            if err:
                chk.violation("one-step", f"GeometricReservoirStorage(size={k}, constant_probability={None if p is None else pe}): updating a full reservoir {err}",
                              {"k": k, "p": str(pe)})
                continue
            if (pe * G).denominator == 1 and p_enter != pe:
                chk.violation("accept-probability", f"size {k}, p={pe}: a new observation enters a full reservoir with probability {p_enter} instead of {pe} "
                              f"(all draw outcomes enumerated; real draws on a {G}-cell grid)", {"k": k, "p": str(pe), "observed": str(p_enter)})
                continue
            if p_enter > 0 and any(slots.get(j, 0) != p_enter / k for j in range(k)):
                chk.violation("slot-uniformity", f"size {k}, p={pe}: the replaced slot is not uniform: {({j: str(v) for j, v in slots.items()})}",
                              {"k": k, "p": str(pe)})
                continue
            # (b) exact inclusion probabilities
            for n, pool in [(n, None) for n in range(k, k + extra + 1)] + [(n, pl) for n in range(k + 1, k + extra + 1) for pl in (1, 2) if k >= 2]:
                try:
                    probs, total = exact_inclusion(k, p, n, pool=pool)
                except Exception as ex:
                    chk.violation("exception", f"GeometricReservoirStorage(size={k}, constant_probability={pe}) raised {core.err_kind(ex)}: {ex} on a stream of {n}",
                                  {"k": k, "p": str(pe), "n": n})
                    break
                if probs is None:
                    chk.stat("enumeration_too_large_skipped")
                    continue
                chk.case({"exact-distribution": True, "k": k, "p": str(pe), "n": n, "distinct_contents": pool,
                          "P(retained)": [str(x) for x in probs]}, nontrivial=n > k)
                if pool:
                    chk.stat("exact_distributions_with_equal_observations")
                chk.stat("exact_distributions")
                if total != 1:
                    chk.tie_failure("enumeration", f"script weights sum to {total}")
                for t in range(n):
                    want = law(k, pe, n, t)
                    if probs[t] != want:
                        chk.violation("inclusion-law",
                                      f"size {k}, p={pe}, after {n} observations{' with only ' + str(pool) + ' distinct contents' if pool else ''} arrival {t + 1} is retained with probability "
                                      f"{probs[t]} instead of {want}", {"k": k, "p": str(pe), "n": n, "t": t + 1, "distinct_contents": pool,
                                                                        "observed": str(probs[t]), "expected": str(want)})
                        break
    # (c) translation validation on random scripts (shared with C07)
    reqs, impls = [], []
    for _ in range(150 if quick else 1500):
        k = chk.rng.randint(1, 5)
        n = chk.rng.randint(0, 4 * k + 6)
        targets = chk.rng.random() < 0.5
        reals = [Q(chk.rng.randint(1, 99), 100) for _ in range(n + 2)]
        idxs = [chk.rng.randrange(k) for _ in range(n + 2)]
        p = chk.rng.choice([None, Q(1, 3), Q(1, 2), Q(1), Q(9, 10)])
        out, _ = c07.run_impl("geom", k, targets, p, n, list(reals), list(idxs))
        desc = {"kind": "geom", "size": k, "targets": targets, "p": rs(p) if p is not None else None, "n": n}
        chk.case(dict(desc, script=[rs(r) for r in reals[:6]]), nontrivial=n > k, sample=False)
        reqs.append({"op": "storage", "kind": "geom", "n": n, "targets": targets, "size": k,
                     "p": rs(p) if p is not None else None, "reals": [rs(r) for r in reals], "idxs": idxs})
        impls.append((desc, out))
    if core.driver_available():
        try:
            answers = core.run_driver(reqs)
        except Exception as ex:
            chk.tie_failure("driver", f"model driver failed: {ex}")
            answers = []
        ndis = 0
        for ans, (desc, out) in zip(answers, impls):
            chk.stat("model_vs_impl_compared")
            impl = {k: core.canon(v) for k, v in out.items() if k != "ranges"}
            model = core.jnorm({k: ans.get(k) for k in impl}) if "error" not in ans else ans
            if impl != model and ndis < 5:
                ndis += 1
                chk.tie_failure("translation-validation:geom", f"generated kernel and Python class disagree on {desc}: impl={impl} model={model}")
    else:
        chk.tie_failure("driver", "model driver not built")
    chk.exhaustive = True
    chk.extra["explanation"] = ("Theorems: one generated step = stepE (accept weight a, uniform slot), retention law "
                                "p(1-p/k)^(n-t) / (1-p/k)^(n-k) for all k, n, t, p; default p = 1/k; p = 1 always stores. The real class' "
                                "exact distribution (all scripts, weights from the ranges it requested) equals the closed form for the "
                                "listed sizes (exhaustive there).")
    return chk.finish()
