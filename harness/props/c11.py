"""C11 — SlidingWindowTracker reports statistics of exactly the last k values.

Stage A: Props/C11.lean (window contents = last min(n,k) inputs as a multiset, count, mean, variance, std).
Stage B: the real class (a NumPy float buffer) vs the Lean model (exact rationals) and vs the closed forms, after every
         update, with a 1e-9 relative tolerance (the buffer stores binary64); construction on the installed NumPy is part of
         the run ("can be constructed and used").
"""
import math
from fractions import Fraction

from harness import core
from harness.q import Q, rs


def close(a, b):
    if not (isinstance(a, (int, float)) and isinstance(b, (int, float))):
        return False      # e.g. the name of an exception raised by the getter
    return abs(a - b) <= 1e-9 * max(1.0, abs(a), abs(b))


def run(tier="quick", seed=0, replay=None):
    chk = core.Check("C11", tier, seed, "proof")
    chk.rule = ("window size k in 1..5 (quick) / 1..8 (thorough), every stream length 1..3k+2, values: small integers, dyadic "
                "fractions, large offsets, streams through which a value 1e12..3e18 times larger passes, streams with rejected (raising) items; compared after every update. Non-trivial: length > k (the buffer wrapped); distinct by hash.")
    chk.trusted = ["Lean 4.33.0 kernel", "axioms propext/Classical.choice/Quot.sound",
                   "hand-written model Model/SlidingWindow.lean tied by this correspondence",
                   "np.nanmean/nanvar/nanstd are mean/variance/std of the non-NaN entries (NumPy, outside /repo)"]
    chk.assumptions = ["k >= 1", "comparison with tolerance 1e-9 (binary64 buffer)"]
    if replay:
        print(open(replay).read())
        return 1
    core.lean_stage(chk, "C11")
    core.soft_stage(chk, ["C11b"], "ring-buffer bookkeeping regenerated from sliding_window.py = Model/SlidingWindow.lean")
    from harness import cover
    from harness import fingerprint
    fingerprint.direct(chk, ['ixai/utils/tracker/sliding_window.py'])
    _cv = cover.Cover(['ixai/utils/tracker/sliding_window.py'])
    _cv.__enter__()
    quick = tier == "quick"
    reqs, impls = [], []
    try:
        from ixai.utils.tracker import SlidingWindowTracker
        SlidingWindowTracker(2)
    except Exception as ex:
        chk.violation("construct", f"SlidingWindowTracker(2) cannot be constructed on NumPy {__import__('numpy').__version__}: "
                      f"{core.err_kind(ex)}: {ex}", {"k": 2})
        return chk.finish()
    for k in range(1, min(chk.count(5, 8), 12) + 1):      # window sizes; the budget scale goes into the repetitions, not into k
        for n in range(1, 3 * k + 3):
            for rep in range(chk.count(2, 6)):
                style = chk.rng.choice(["int", "dyadic", "offset"])
                if style == "int":
                    vs = [Q(chk.rng.randint(-8, 8)) for _ in range(n)]
                elif style == "dyadic":
                    vs = [Q(chk.rng.randint(-64, 64), 8) for _ in range(n)]
                else:
                    vs = [Q(10 ** 6 + chk.rng.randint(-5, 5)) for _ in range(n)]
                desc = {"k": k, "vs": [rs(v) for v in vs]}
                chk.case(desc, nontrivial=n > k)
                chk.stat(f"k={k}")
                t = SlidingWindowTracker(k)
                steps, fail = [], None
                for i, v in enumerate(vs):
                    try:
                        t.update(float(v))
                        got = (t.mean, t.var, t.std, t.get())
                    except Exception as ex:
                        fail = f"after {i + 1} updates: raised {core.err_kind(ex)}: {ex}"
                        break
                    last = [Fraction(x) for x in vs[max(0, i + 1 - k):i + 1]]
                    m = sum(last) / len(last)
                    var = sum((x - m) ** 2 for x in last) / len(last)
                    if not (close(got[0], float(m)) and close(got[3], float(m))):
                        fail = f"after {i + 1} updates: mean {got[0]} but the last {len(last)} values {[str(x) for x in last]} have mean {float(m)}"
                    elif not close(got[1], float(var)):
                        fail = f"after {i + 1} updates: var {got[1]} but the last {len(last)} values have variance {float(var)}"
                    elif not close(got[2], math.sqrt(float(var))):
                        fail = f"after {i + 1} updates: std {got[2]} but the last {len(last)} values have std {math.sqrt(float(var))}"
                    if fail:
                        break
                    steps.append((got[0], got[1]))
                if fail:
                    chk.violation("window", f"SlidingWindowTracker({k}) on {desc['vs']}: {fail}", desc)
                else:
                    reqs.append({"op": "sw", "k": k, "vs": [rs(v) for v in vs]})
                    impls.append((desc, steps))
    # sparse read patterns: statistics are read only every k-th or 2k-th update (a cache keyed on the write position would repeat)
    for k in range(2, (5 if quick else 8) + 1):
        for every in (k, 2 * k, k + 1):
            for rep in range(2 if quick else 6):
                vs = [float(chk.rng.choice([0, 1])) for _ in range(6 * k)]
                t = SlidingWindowTracker(k)
                chk.case({"k": k, "read_every": every, "vs": vs}, nontrivial=True, sample=False)
                for i, v in enumerate(vs):
                    t.update(v)
                    if (i + 1) % every == 0:
                        last = vs[max(0, i + 1 - k):i + 1]
                        m = sum(last) / len(last)
                        var = sum((x - m) ** 2 for x in last) / len(last)
                        if not (close(t.mean, m) and close(t.var, var) and close(t.std, math.sqrt(var))):
                            chk.violation("window-sparse-reads", f"SlidingWindowTracker({k}) read every {every} updates on {vs[:i + 1]}: after {i + 1} updates "
                                          f"mean/var/std = {t.mean}/{t.var}/{t.std}, the last {len(last)} values have {m}/{var}/{math.sqrt(var)}",
                                          {"k": k, "vs": [str(x) for x in vs[:i + 1]], "read_every": every})
                            break
    # a value many orders of magnitude larger than its neighbours passes through the window: once it has left, the statistics are
    # those of the last k values again (to rounding relative to THEIR magnitude) — nothing of an evicted value may linger
    for k in range(1, (5 if quick else 8) + 1):
        for rep in range(chk.count(3, 10)):
            n = chk.rng.randint(2 * k + 1, 5 * k + 3)
            vs = [float(chk.rng.choice([1, 1, 2, -3, 0.5, 0.25])) for _ in range(n)]
            for _ in range(chk.rng.randint(1, 2)):
                vs[chk.rng.randrange(0, n - k)] = chk.rng.choice([1e17, -3e18, 2.5e15, 1e12])
            t = SlidingWindowTracker(k)
            chk.case({"k": k, "outlier_stream": vs}, nontrivial=True, sample=False)
            chk.stat("streams_with_outliers")
            for i, v in enumerate(vs):
                t.update(v)
                last = vs[max(0, i + 1 - k):i + 1]
                big = max(abs(x) for x in last)
                m = math.fsum(last) / len(last)
                var = math.fsum((x - m) ** 2 for x in last) / len(last)
                got = (t.mean, t.var, t.std)
                tol = 1e-9 * max(1.0, big)
                if not (abs(got[0] - m) <= tol and abs(got[1] - var) <= 1e-9 * max(1.0, big * big) and abs(got[2] - math.sqrt(var)) <= tol):
                    chk.violation("window-after-outlier", f"SlidingWindowTracker({k}) on {vs[:i + 1]}: after {i + 1} updates mean/var/std = "
                                  f"{got[0]}/{got[1]}/{got[2]}, the last {len(last)} values {last} have {m}/{var}/{math.sqrt(var)}",
                                  {"k": k, "vs": [repr(x) for x in vs[:i + 1]]})
                    break
    # streams in which some supplied items are rejected (the update raises, the caller catches it and goes on): the statistics are
    # those of the last min(n, k) values that were accepted — a rejected item must leave no trace
    for k in range(1, (5 if quick else 8) + 1):
        for rep in range(chk.count(3, 10)):
            n = chk.rng.randint(k, 4 * k + 2)
            t = SlidingWindowTracker(k)
            accepted, script = [], []
            for i in range(n):
                if chk.rng.random() < 0.3:
                    bad = chk.rng.choice(["abc", [1.0, 2.0], {"v": 1}, object(), "1e", (3, 4)])
                    script.append(repr(bad)[:20])
                    try:
                        t.update(bad)
                    except Exception:
                        pass
                    else:
                        accepted.append(None)     # accepted after all (NumPy stored it): outside this scenario
                        break
                else:
                    v = float(chk.rng.randint(-9, 9))
                    script.append(v)
                    t.update(v)
                    accepted.append(v)
                if accepted and None not in accepted:
                    last = accepted[-k:]
                    m = sum(last) / len(last)
                    var = sum((x - m) ** 2 for x in last) / len(last)
                    try:
                        got = (t.mean, t.var, t.std)
                    except Exception as ex:
                        got = (core.err_kind(ex), None, None)
                    if not (close(got[0], m) and close(got[1], var) and close(got[2], math.sqrt(var))):
                        chk.violation("window-after-rejected-update", f"SlidingWindowTracker({k}) on the stream {script} (non-numeric items raise and are "
                                      f"skipped by the caller): mean/var/std = {got[0]}/{got[1]}/{got[2]}, the last {len(last)} accepted values "
                                      f"{last} have {m}/{var}/{math.sqrt(var)}", {"k": k, "stream": [str(x) for x in script]})
                        break
            chk.case({"k": k, "stream_with_rejected_items": [str(x) for x in script]}, nontrivial=len(accepted) > 1, sample=False)
            chk.stat("streams_with_rejected_items")
    if core.driver_available():
        try:
            answers = core.run_driver(reqs)
        except Exception as ex:
            chk.tie_failure("driver", f"model driver failed: {ex}")
            answers = []
        ndis = 0
        for ans, (desc, steps) in zip(answers, impls):
            chk.stat("model_vs_impl_compared")
            ms = ans.get("steps", [])
            bad = len(ms) != len(steps) or any(not (close(float(Fraction(m["mean"])), s[0]) and close(float(Fraction(m["var"])), s[1]))
                                               for m, s in zip(ms, steps))
            if bad and ndis < 5:
                ndis += 1
                chk.tie_failure("correspondence:SlidingWindowTracker", f"{desc}: impl={steps} model={ms}")
    else:
        chk.tie_failure("driver", "model driver not built")
    _cv.__exit__(None, None, None)
    cover.gate(chk, _cv, only_functions=['SlidingWindowTracker'])
    chk.exhaustive = False
    chk.extra["explanation"] = ("Theorems about the ring-buffer model for every k >= 1 and stream; tied to sliding_window.py by running the real "
                                "class after every update against the model and the closed forms.")
    return chk.finish()
