"""C14 — model wrappers give one canonical dict output form.

Stage A: Props/C14.lean (canonical dict for size-one / vector outputs, batch = map over rows, batch = single for row-wise
         models, key-order independence and feature selection with feature names, river one-hot over seen labels, dispatch
         table of validate_model_function) — about the array model of Model/Wrapper.lean.
Stage B: carries the weight (C14 is partial: NumPy / torch / sklearn behaviour is outside the model): SklearnWrapper and
         TorchWrapper around recorded prediction functions over output shapes {(), (1,), (1,1), (c,), (n,), (n,1), (n,c)} x dtypes
         x batch sizes x key orders x with/without feature names, compared with the Lean model and with the canonical form
         directly; RiverWrapper on label/number/dict streams; real sklearn / torch / river models; dispatch over sklearn's and
         river's estimator classes.
"""
import inspect
import warnings

import numpy as np

from harness import core, explain
from harness.q import Q, rs


def fr(v):
    return rs(Q(float(v)))


def canon_out(d):
    """real wrapper output dict -> [[label, 'p/q']]"""
    return [[("output" if k == "output" else int(k)), fr(v)] for k, v in d.items()]


def expected(arr):
    a = np.asarray(arr)
    if a.size == 1:
        return [["output", fr(a.reshape(-1)[0])]]
    flat = a.flatten()
    return [[i, fr(flat[i])] for i in range(flat.shape[0])]


class Recorder:
    """a prediction function with a prescribed output shape that is row-wise (rows computed independently)"""

    def __init__(self, rng, d, out_shape_kind, dtype):
        self.d, self.kind, self.dtype = d, out_shape_kind, dtype
        self.w = np.array([[rng.randint(-3, 3) for _ in range(3)] for _ in range(d)], dtype=float)
        self.table = []
        self.inputs = []
        self.raw_inputs = []

    def __call__(self, X):
        self.raw_inputs.append(np.asarray(X).copy())     # exactly what reaches the model (dtype included)
        X = np.asarray(X, dtype=float)
        self.inputs.append(X.copy())
        n = X.shape[0]
        full = (X @ self.w)  # (n, 3)
        if self.dtype == "bool":
            full = full > 0
        elif self.dtype == "i64":
            full = np.round(full).astype(np.int64)
        elif self.dtype == "f32":
            full = full.astype(np.float32)
        k = self.kind
        if k == "scalar":          # shape () — only meaningful for a single row
            out = full[0, 0] if n == 1 else full[:, 0]
            out = np.asarray(out)
        elif k == "n":
            out = full[:, 0]
        elif k == "n1":
            out = full[:, :1]
        elif k == "nc":
            out = full
        elif k == "c":             # a flat vector of c outputs for one row; (n, c) for a batch
            out = full[0] if n == 1 else full
        else:
            raise ValueError(k)
        self.table.append([[fr(v) for v in X.flatten()], {"shape": list(np.asarray(out).shape), "data": [fr(v) for v in np.asarray(out).flatten()]}])
        return out


def wrapper_cases(chk, n_cases):
    from ixai.utils.wrappers import SklearnWrapper
    rng = chk.rng
    reqs, impls = [], []
    for i in range(n_cases):
        d = rng.randint(1, 4)
        kind = rng.choice(["scalar", "n", "n1", "nc", "c"])
        dtype = rng.choice(["f64", "f32", "i64", "bool"])
        names_all = ["a", "b", "c", "d", "e"][:d + 1]       # one extra key that must not reach the model with feature names
        use_names = rng.random() < 0.6
        fnames = names_all[:d] if use_names else None
        rec = Recorder(rng, d, kind, dtype)
        w = SklearnWrapper(rec, feature_names=fnames)
        batch = rng.choice([0, 0, 1, 2, 5])
        if batch > 0 and kind in ("scalar", "c"):
            kind = rng.choice(["n", "n1", "nc"])  # a batch output always has a leading batch axis
            rec = Recorder(rng, d, kind, dtype)
            w = SklearnWrapper(rec, feature_names=fnames)
        keys = names_all if use_names else names_all[:d]

        int_first = (i % 3 == 1)
        id_column = rng.choice([None, None, "row-17", "1e3", "nan"]) if use_names else None

        def mk(row=[0]):
            row[0] += 1
            if int_first and row[0] == 1:
                items = [(k, rng.randint(-4, 4)) for k in keys]                   # first row: Python ints only
            elif int_first:
                items = [(k, rng.randint(-8, 8) / 4) for k in keys]               # later rows: non-integral floats
            else:
                items = [(k, float(rng.randint(-4, 4))) for k in keys]
            if use_names and id_column:
                # the key that is not among the feature names holds something that is not a number (an id column)
                items[-1] = (items[-1][0], id_column)
            if use_names:
                rng.shuffle(items)
            return dict(items)
        idx = {k: j for j, k in enumerate(names_all)}
        desc = {"d": d, "out": kind, "dtype": dtype, "feature_names": use_names, "batch": batch, "id_column": id_column}
        chk.case(dict(desc, i=i), nontrivial=True, sample=(i < 3))
        chk.stat(f"out:{kind}")
        chk.stat(f"dtype:{dtype}")
        try:
            with warnings.catch_warnings():
                warnings.simplefilter("ignore")
                if batch == 0:
                    x = mk()
                    got = w(x)
                    raw = rec(np.asarray([[x[k] for k in (fnames or list(x.keys()))]]))
                    want = expected(raw)
                    if canon_out(got) != want:
                        chk.violation("canonical-form", f"SklearnWrapper, model output shape {list(np.asarray(raw).shape)} dtype {dtype}: "
                                      f"wrapper returned {got!r}, canonical form is {want}", dict(desc, x={k: v for k, v in x.items()}))
                    # key-order independence / only named features reach the model
                    if use_names:
                        arr = rec.inputs[0]
                        if rec.raw_inputs[0].dtype.kind not in "fiub":
                            chk.violation("feature-selection", f"SklearnWrapper(feature_names={fnames}): all named features of {x} are numbers but the model "
                                          f"received an array of dtype {rec.raw_inputs[0].dtype} ({rec.raw_inputs[0].tolist()}): something other than the named features reached it",
                                          dict(desc, x=x))
                        if arr.shape != (1, d) or list(arr[0]) != [x[k] for k in fnames]:
                            chk.violation("feature-selection", f"SklearnWrapper(feature_names={fnames}): the model received {arr.tolist()} for input {x}",
                                          dict(desc, x=x))
                        x2 = dict(reversed(list(x.items())))
                        if w(x2) != got:
                            chk.violation("key-order", f"SklearnWrapper(feature_names={fnames}): result depends on the key order of the input dict", dict(desc, x=x))
                    reqs.append({"op": "wrapper", "names": [idx[k] for k in fnames] if use_names else None,
                                 "x": [[idx[k], fr(v)] for k, v in x.items() if not isinstance(v, str)], "pred": rec.table})
                    impls.append((desc, {"one": canon_out(got)}))
                else:
                    xs = [mk() for _ in range(batch)]
                    if use_names and i % 2 == 0:
                        # first row keyed exactly in model order (no extra key first), later rows permuted / with the extra key
                        first = {k: xs[0][k] for k in fnames}
                        if i % 4 == 0:
                            first[names_all[-1]] = xs[0][names_all[-1]]
                        xs[0] = first
                    got = w(xs)
                    singles = [w(xi) for xi in xs]
                    if kind != "scalar" and [canon_out(g) for g in got] != [canon_out(s) for s in singles]:
                        chk.violation("batch-vs-single", f"SklearnWrapper, row-wise model with output kind {kind}, batch of {batch}: list call gave "
                                      f"{got!r}, one-at-a-time calls gave {singles!r}", dict(desc, xs=xs))
                    reqs.append({"op": "wrapper", "names": [idx[k] for k in fnames] if use_names else None,
                                 "xs": [[[idx[k], fr(v)] for k, v in xi.items() if not isinstance(v, str)] for xi in xs], "pred": rec.table[:1]})
                    impls.append((desc, {"many": [canon_out(g) for g in got]}))
        except Exception as ex:
            chk.violation("wrapper-exception", f"SklearnWrapper {desc}: raised {core.err_kind(ex)}: {ex}", desc)
    return reqs, impls


def torch_cases(chk, n_cases):
    """TorchWrapper around a recording link function (tensor in, tensor out): same canonical form, batch and key-order clauses"""
    try:
        import torch
    except ImportError:
        return
    from ixai.utils.wrappers import TorchWrapper
    rng = chk.rng
    for i in range(n_cases):
        d = rng.randint(1, 3)
        kind = rng.choice(["n", "n1", "nc"])
        rec = Recorder(rng, d, kind, "f32")
        names = ["a", "b", "c"][:d]

        def link(t, rec=rec):
            return torch.tensor(np.asarray(rec(t.numpy())), dtype=torch.float32)
        w = TorchWrapper(link, feature_names=names)
        xs = []
        for _ in range(rng.choice([1, 2, 4])):
            items = [(k, float(rng.randint(-4, 4))) for k in names + ["extra"]]
            rng.shuffle(items)
            xs.append(dict(items))
        desc = {"torch": True, "d": d, "out": kind, "batch": len(xs)}
        chk.case(dict(desc, i=i), nontrivial=True, sample=False)
        chk.stat("torch_cases")
        try:
            many = w(xs)
            singles = [w(x) for x in xs]
            for x, one, m in zip(xs, singles, many):
                raw = rec(np.asarray([[x[k] for k in names]]))
                want = expected(raw[0] if kind != "n" else raw)
                if canon_out(one) != want or canon_out(m) != want:
                    chk.violation("torch-form", f"TorchWrapper, link output kind {kind}: single={one!r} batch row={m!r}, canonical form of the row {np.asarray(raw).tolist()} is {want}", desc)
                    return
            arr = rec.inputs[0]
            if list(arr[0]) != [xs[0][k] for k in names]:
                chk.violation("torch-feature-selection", f"TorchWrapper(feature_names={names}): the link function received {arr.tolist()} for input {xs[0]}", desc)
                return
        except Exception as ex:
            chk.violation("torch-exception", f"TorchWrapper {desc}: raised {core.err_kind(ex)}: {ex}", desc)
            return


def river_cases(chk, n_cases):
    from ixai.utils.wrappers import RiverWrapper
    rng = chk.rng
    reqs, impls = [], []
    for i in range(n_cases):
        stream = []
        style = rng.choice(["labels", "numbers", "dicts", "labels"])
        outs_raw = []
        for t in range(rng.randint(1, 8)):
            if style == "labels":
                # a fresh string object every time (labels that are equal but not identical, as run-time built labels are)
                outs_raw.append("".join(list(rng.choice(["cat", "dog", "bird", "fish"]))))
            elif style == "numbers":
                outs_raw.append(rng.choice([1, 2.5, True, np.float64(0.25), 3]))
            else:
                outs_raw.append({0: 0.25, 1: 0.75} if rng.random() < 0.5 else {"a": 1.0})
        it = iter(outs_raw)
        w = RiverWrapper(lambda x: next(it))
        ids = explain.Ids()
        got = []
        # the model behind the wrapper may change between calls (test-then-train): equal inputs, also consecutive ones, must be
        # evaluated afresh each time
        pool = rng.choice([1, 2, 3, 100])
        xs_in = [{"f": rng.randrange(pool), "g": 0} for _ in outs_raw]
        try:
            if i % 3 == 0:
                got = list(w([dict(x) for x in xs_in]))      # list input: the list of canonical dicts, in order
            else:
                for x in xs_in:
                    got.append(w(dict(x)))
        except Exception as ex:
            chk.violation("river-exception", f"RiverWrapper on predictions {outs_raw!r}: raised {core.err_kind(ex)}: {ex}", {"stream": [repr(o) for o in outs_raw]})
            continue
        desc = {"river_stream": [repr(o) for o in outs_raw], "inputs": [x["f"] for x in xs_in]}
        chk.case(desc, nontrivial=len(outs_raw) >= 2, sample=(i < 1))
        chk.stat(f"river:{style}")
        seen = []
        for o, g in zip(outs_raw, got):
            if isinstance(o, dict):
                ok = g == o
            elif isinstance(o, str):
                if o not in seen:
                    seen.append(o)
                ok = set(g.keys()) == set(seen) and g[o] == 1.0 and all(g[l] == 0.0 for l in seen if l != o)
            else:
                ok = list(g.keys()) == ["output"] and g["output"] == float(o)
            if not ok:
                chk.violation("river-form", f"RiverWrapper: prediction {o!r} (labels seen so far {seen}) became {g!r}", desc)
                break
        req_stream, impl_outs = [], []
        for o, g in zip(outs_raw, got):
            if isinstance(o, dict):
                req_stream.append({"d": [[ids.of(k), fr(v)] for k, v in o.items()]})
                impl_outs.append(sorted([[ids.of(k), fr(v)] for k, v in g.items()]))
            elif isinstance(o, str):
                req_stream.append({"l": ids.of(o)})
                impl_outs.append(sorted([[ids.of(k), fr(v)] for k, v in g.items()]))
            else:
                req_stream.append({"n": fr(o)})
                impl_outs.append([["output", fr(g["output"])]])
        reqs.append({"op": "river_wrap", "stream": req_stream})
        impls.append((desc, {"outs": impl_outs}))
    return reqs, impls


def real_models(chk):
    """real sklearn / torch models behind the wrappers vs direct calls"""
    from ixai.utils.wrappers import SklearnWrapper, TorchWrapper
    from sklearn.linear_model import LinearRegression, LogisticRegression
    from sklearn.tree import DecisionTreeClassifier
    rs_ = np.random.RandomState(chk.seed)
    X = rs_.normal(size=(30, 3))
    yr = X @ np.array([1.0, -2.0, 0.5])
    yc = (X[:, 0] > 0).astype(int) + (X[:, 1] > 0.5).astype(int)
    names = ["f0", "f1", "f2"]
    models = [("LinearRegression.predict", LinearRegression().fit(X, yr).predict),
              ("LogisticRegression.predict", LogisticRegression().fit(X, yc).predict),
              ("LogisticRegression.predict_proba", LogisticRegression().fit(X, yc).predict_proba),
              ("DecisionTreeClassifier.predict_proba", DecisionTreeClassifier(max_depth=2, random_state=0).fit(X, yc).predict_proba)]
    for label, fn in models:
        w = SklearnWrapper(fn, feature_names=names)
        rows = X[:4]
        xs = [dict(zip(names, map(float, r))) for r in rows]
        chk.case({"real_model": label}, nontrivial=True, sample=False)
        chk.stat("real_models")
        try:
            with warnings.catch_warnings():
                warnings.simplefilter("ignore")
                direct = fn(rows)
                many = w(xs)
                for i, x in enumerate(xs):
                    one = w(dict(reversed(list(x.items()))))
                    want = expected(direct[i])
                    def near(a, b):
                        from fractions import Fraction
                        return [k for k, _ in a] == [k for k, _ in b] and all(
                            abs(float(Fraction(u)) - float(Fraction(v))) <= 1e-9 * max(1.0, abs(float(Fraction(v)))) for (_, u), (_, v) in zip(a, b))
                    if not near(canon_out(one), want) or not near(canon_out(many[i]), want):
                        chk.violation("real-sklearn", f"SklearnWrapper({label}): row {i}: single={one!r} batch={many[i]!r} canonical form of the model's own "
                                      f"output {np.asarray(direct[i]).tolist()} is {want}", {"model": label})
                        break
        except Exception as ex:
            chk.violation("real-sklearn", f"SklearnWrapper({label}) raised {core.err_kind(ex)}: {ex}", {"model": label})
    try:
        import torch
        torch.manual_seed(0)
        for out_dim in (1, 3):
            lin = torch.nn.Linear(3, out_dim)
            w = TorchWrapper(lin, feature_names=names)
            rows = X[:3].astype(np.float32)
            xs = [dict(zip(names, map(float, r))) for r in rows]
            chk.case({"real_model": f"torch.nn.Linear(3,{out_dim})"}, nontrivial=True, sample=False)
            chk.stat("real_models")
            with torch.no_grad():
                direct = lin(torch.tensor(rows)).numpy()
            many = w(xs)
            for i, x in enumerate(xs):
                one = w(x)
                want = expected(direct[i])

                def close(a, b):
                    return [k for k, _ in a] == [k for k, _ in b] and all(abs(float(Q(__import__('fractions').Fraction(u))) - float(Q(__import__('fractions').Fraction(v)))) < 1e-5 for (_, u), (_, v) in zip(a, b))
                if not close(canon_out(one), want) or not close(canon_out(many[i]), want):
                    chk.violation("real-torch", f"TorchWrapper(Linear(3,{out_dim})): row {i}: single={one!r} batch={many[i]!r} expected {want}", {"out_dim": out_dim})
                    break
    except ImportError:
        chk.stat("torch_missing")


def dispatch_cases(chk):
    from ixai.utils.validators.model import validate_model_function
    from ixai.utils.wrappers import SklearnWrapper, TorchWrapper, RiverWrapper
    from ixai.utils.wrappers.base import Wrapper
    reqs, impls = [], []

    def probe(obj, owner, label):
        with warnings.catch_warnings():
            warnings.simplefilter("ignore")
            try:
                r = validate_model_function(obj)
            except Exception as ex:
                chk.violation("dispatch", f"validate_model_function({label}) raised {core.err_kind(ex)}: {ex}", {"object": label})
                return
        kind = "unchanged" if r is obj else ("sklearn" if type(r) is SklearnWrapper else "river" if type(r) is RiverWrapper else
                                             "torch" if type(r) is TorchWrapper else "other:" + type(r).__name__)
        reqs.append({"op": "validate", "owner": owner})
        impls.append(({"object": label, "owner": owner}, {"wrapped": kind}))
        chk.stat(f"dispatch:{owner}")
        want = {"wrapper": "unchanged", "boundSklearn": "sklearn", "boundRiver": "river", "torchModule": "torch", "plain": "unchanged", "boundOther": "unchanged"}[owner]
        if kind != want:
            chk.violation(f"dispatch:{owner}", f"validate_model_function({label}) returned {kind}, expected {want}", {"object": label})
    probe(SklearnWrapper(lambda a: a), "wrapper", "SklearnWrapper instance")
    probe(RiverWrapper(lambda a: a), "wrapper", "RiverWrapper instance")
    probe(lambda x: {"output": 0}, "plain", "lambda")

    class Other:
        def predict(self, x):
            return 0
    probe(Other().predict, "boundOther", "bound method of a user class")
    n = 0
    try:
        from sklearn.utils import all_estimators
        for name, cls in all_estimators():
            try:
                with warnings.catch_warnings():
                    warnings.simplefilter("ignore")
                    est = cls()
            except Exception:
                continue
            for m in ("predict", "predict_proba"):
                if hasattr(est, m):
                    try:
                        meth = getattr(est, m)
                    except Exception:
                        continue
                    probe(meth, "boundSklearn", f"sklearn {name}.{m}")
                    n += 1
                    break
            if n >= (40 if chk.tier == "quick" else 400):
                break
    except Exception:
        chk.stat("sklearn_enumeration_failed")
    try:
        import river
        n = 0
        for modname in ("linear_model", "tree", "naive_bayes", "neighbors", "dummy", "forest", "ensemble"):
            try:
                mod = __import__(f"river.{modname}", fromlist=["x"])
            except Exception:
                continue
            for name in dir(mod):
                cls = getattr(mod, name)
                if not inspect.isclass(cls):
                    continue
                try:
                    with warnings.catch_warnings():
                        warnings.simplefilter("ignore")
                        est = cls()
                except Exception:
                    continue
                for m in ("predict_one", "predict_proba_one"):
                    if hasattr(est, m):
                        probe(getattr(est, m), "boundRiver", f"river {modname}.{name}.{m}")
                        n += 1
                        break
    except Exception:
        chk.stat("river_enumeration_failed")
    try:
        import torch
        probe(torch.nn.Linear(2, 1), "torchModule", "torch.nn.Linear")
        probe(torch.nn.Sequential(torch.nn.Linear(2, 2), torch.nn.ReLU()), "torchModule", "torch.nn.Sequential")
    except ImportError:
        pass
    chk.case({"dispatch_objects": len(reqs)}, nontrivial=True)
    return reqs, impls


def run(tier="quick", seed=0, replay=None):
    chk = core.Check("C14", tier, seed, "translation_validation")
    chk.rule = ("SklearnWrapper around recording row-wise prediction functions: output kinds {scalar (), (n,), (n,1), (n,c), (c,)} x dtypes "
                "{f64,f32,i64,bool} x d 1..4 x with/without feature names (one extra key, sometimes a string id) x single dict / batches of 1,2,5 x shuffled key "
                "orders; RiverWrapper on label / number / dict streams; real sklearn and torch models; dispatch over sklearn/river estimator "
                "classes. Non-trivial: always; distinct by hash.")
    chk.trusted = ["Lean 4.33.0 kernel (theorems about the array model)", "axioms propext/Classical.choice/Quot.sound",
                   "NumPy conversion semantics (asarray/reshape/flatten/float), torch tensors, sklearn predictors: OUTSIDE the model, covered by this correspondence only"]
    chk.assumptions = ["C14 is partial: thin model, heavy tie"]
    if replay:
        print(open(replay).read())
        return 1
    core.lean_stage(chk, "C14")
    from harness import cover
    from harness import fingerprint
    fingerprint.direct(chk, ['ixai/utils/wrappers/base.py', 'ixai/utils/wrappers/sklearn.py', 'ixai/utils/wrappers/river.py', 'ixai/utils/wrappers/torch.py', 'ixai/utils/validators/model.py'])
    _cv = cover.Cover(['ixai/utils/wrappers/base.py', 'ixai/utils/wrappers/sklearn.py', 'ixai/utils/wrappers/river.py', 'ixai/utils/wrappers/torch.py', 'ixai/utils/validators/model.py'])
    _cv.__enter__()
    quick = tier == "quick"
    reqs, impls = [], []
    for fn, n in ((wrapper_cases, chk.count(150, 1500)), (river_cases, chk.count(40, 400))):
        r, i = fn(chk, n)
        reqs += r
        impls += i
    torch_cases(chk, chk.count(25, 250))
    real_models(chk)
    r, i = dispatch_cases(chk)
    reqs += r
    impls += i
    if core.driver_available():
        try:
            answers = core.run_driver(reqs)
        except Exception as ex:
            chk.tie_failure("driver", f"model driver failed: {ex}")
            answers = []
        ndis = 0
        for ans, (desc, impl) in zip(answers, impls):
            chk.stat("model_vs_impl_compared")
            a = dict(ans)
            if "outs" in a and "outs" in impl:
                a["outs"] = [sorted(o, key=lambda e: (isinstance(e[0], str), e[0])) if o and not isinstance(o[0][0], str) else o for o in a["outs"]]
            if core.jnorm(a) != core.jnorm(impl) and ndis < 5:
                ndis += 1
                chk.tie_failure("correspondence:wrapper", f"{desc}: impl={str(impl)[:300]} model={str(ans)[:300]}")
    else:
        chk.tie_failure("driver", "model driver not built")
    _cv.__exit__(None, None, None)
    cover.gate(chk, _cv, only_functions=['Wrapper', 'SklearnWrapper', 'RiverWrapper', 'TorchWrapper', 'validate_model_function'])
    chk.exhaustive = False
    chk.extra["explanation"] = ("Theorems about the array model (canon_size_one for every shape, canon_vector, batch_equals_single for row-wise models, "
                                "input_order_irrelevant, only_named_features_reach_model, river_one_hot/river_stream, validate_table); the tie runs the "
                                "real wrappers over shapes x dtypes x batches x key orders and real sklearn/torch/river objects.")
    chk.extra["programs"] = len(reqs)
    return chk.finish()
