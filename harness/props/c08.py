"""C08 — UniformReservoirStorage keeps a uniformly random subset.

Stage A: Props/C08.lean (Algorithm-L shape of the generated kernel, acceptance law of that algorithm as a moment
         functional, uniform inclusion law of the accept-with-k/t chain for all k, n and all subsets).
Stage B: translation validation of the generated kernel under scripted draws with exact stand-ins for exp/log/floor,
         the Algorithm-L recurrences checked directly on the real class, and a fixed-seed frequency test of the real
         class with the real generators (inclusion frequency of every arrival and of every k-subset; a deviation with
         two-sided tail below 1e-9 is reported as failing input).  The frequency test never establishes the law; it
         only exhibits a counterexample when the law fails.
"""
import itertools
import math
import random as pyrandom
from fractions import Fraction

from harness import core, rng as hrng, storages as S
from harness.q import Q, rs
from harness.props import c07

Z_LIMIT = 6.2  # two-sided normal tail ~ 5.6e-10


class Obs(dict):
    """an observation that compares equal to every other observation with the same content (repeated sensor readings, heartbeat
    records, low-cardinality features) but carries its arrival number"""
    def __init__(self, content, tag):
        super().__init__(content)
        self.tag = tag


def shape_fails(k, n, reals, idxs, pool=None):
    """Algorithm L's recurrences on the real class (exact arithmetic, stand-in exp/log/floor); with `pool` the observations take
    only that many distinct contents, so equal observations arrive again and again"""
    d = hrng.Scripted(pyrandom.Random(0), reals=list(reals), idxs=list(idxs))
    F = S.FakeNp
    with d.installed(), S.fake_np_in_uniform():
        st = S.make_storage("uniform", k, False)
        u0, u1 = reals[0], reals[1]
        W = F.exp(F.log(u0) / k)
        counter = k + F.floor(F.log(u1) / F.log(1 - W)) + 1
        if st._algo_wt != W or st._algo_l_counter != counter:
            return f"constructor: W={st._algo_wt}, counter={st._algo_l_counter}; Algorithm L gives W={W}, counter={counter}"
        ri, ii = 2, 0
        ids = []
        for t in range(1, n + 1):
            st.update({"id": t} if pool is None else Obs({"reading": t % pool}, t), None)
            if t <= k:
                ids.append(t)
            elif counter == t:
                if ii >= len(idxs) or ri + 1 >= len(reals):
                    return None
                j = idxs[ii] % k
                ii += 1
                ids[j] = t
                W = W * F.exp(F.log(reals[ri]) / k)
                counter = counter + F.floor(F.log(reals[ri + 1]) / F.log(1 - W)) + 1
                ri += 2
            got = [x["id"] if pool is None else getattr(x, "tag", "an object that is not one of the arrivals") for x in st.get_data()[0]]
            if got != ids or st._algo_wt != W or st._algo_l_counter != counter:
                return (f"after arrival {t}: reservoir={got}, W={st._algo_wt}, next accepted={st._algo_l_counter}; "
                        f"Algorithm L gives reservoir={ids}, W={W}, next accepted={counter}")
    return None


def frequency_test(k, n, runs, seed):
    import random
    import numpy as np
    random.seed(seed)
    np.random.seed(seed % (2 ** 32))
    from ixai.storage import UniformReservoirStorage
    single = [0] * n
    subsets = {}
    for _ in range(runs):
        st = UniformReservoirStorage(size=k, store_targets=False)
        for i in range(n):
            st.update({"id": i}, None)
        ids = tuple(sorted(x["id"] for x in st.get_data()[0]))
        for i in ids:
            single[i] += 1
        subsets[ids] = subsets.get(ids, 0) + 1
    return single, subsets


def zscore(count, runs, p):
    return (count - runs * p) / math.sqrt(runs * p * (1 - p))


def run(tier="quick", seed=0, replay=None):
    chk = core.Check("C08", tier, seed, "proof")
    chk.rule = ("(a) random draw scripts (exact rationals, stand-in exp/log/floor) for capacity 1..5, up to 4k+6 arrivals: real "
                "class vs Algorithm L recurrences and vs generated kernel; (b) real generators: (k,n) in {(1,3),(2,4),(2,6),(3,7)}, "
                "40000 runs each (quick) / 400000 (thorough): inclusion count of every arrival and of every k-subset, |z| <= 6.2. "
                "Non-trivial: n > k; distinct by hash.")
    chk.trusted = ["Lean 4.33.0 kernel", "axioms propext/Classical.choice/Quot.sound", "py2lean translator (validated here)",
                   "analytic bridge (not proved in Lean): E[(U^(1/k))^m] = k/(k+m) for U uniform(0,1); floor(log U / log(1-w)) is "
                   "geometric with success probability w; successive draws independent; randrange uniform"]
    chk.assumptions = ["C08 is partial: law of the modelled algorithm proved, analytic bridge from real-valued draws trusted"]
    if replay:
        print(open(replay).read())
        return 1
    core.lean_stage(chk, "C08")
    quick = tier == "quick"
    rng = chk.rng
    # (a) scripted: Algorithm L shape on the real class, and generated kernel vs real class
    reqs, impls = [], []
    for _ in range(250 if quick else 2500):
        k = rng.randint(1, 5)
        n = rng.randint(0, 4 * k + 6)
        reals = [Q(rng.randint(1, 99), 100) for _ in range(2 * n + 6)]
        idxs = [rng.randrange(k) for _ in range(n + 2)]
        desc = {"k": k, "n": n, "reals": [rs(r) for r in reals[:8]], "idxs": idxs[:8]}
        chk.case(desc, nontrivial=n > k)
        f = shape_fails(k, n, reals, idxs)
        if f:
            chk.violation("algorithm-L-shape", f"size {k}, scripted draws {desc['reals']}…: {f}", dict(desc, reals=[rs(r) for r in reals], idxs=idxs))
        pool = rng.choice([1, 2, 3])
        f = shape_fails(k, n, reals, idxs, pool=pool)
        chk.stat("streams_with_equal_observations")
        if f:
            chk.violation("algorithm-L-shape", f"size {k}, stream of observations with only {pool} distinct content(s) (numbers below are arrival "
                          f"numbers), scripted draws {desc['reals']}…: {f}", dict(desc, reals=[rs(r) for r in reals], idxs=idxs, pool=pool))
        targets = rng.random() < 0.5
        out, _ = c07.run_impl("uniform", k, targets, None, n, list(reals), list(idxs))
        reqs.append({"op": "storage", "kind": "uniform", "n": n, "targets": targets, "size": k,
                     "reals": [rs(r) for r in reals], "idxs": idxs})
        impls.append((dict(desc, targets=targets), out))
    if core.driver_available():
        try:
            answers = core.run_driver(reqs)
        except Exception as ex:
            chk.tie_failure("driver", f"model driver failed: {ex}")
            answers = []
        ndis = 0
        for ans, (desc, out) in zip(answers, impls):
            chk.stat("model_vs_impl_compared")
            impl = {k: core.canon(v) for k, v in out.items() if k != "ranges"}
            model = core.jnorm({k: ans.get(k) for k in impl}) if "error" not in ans else ans
            if impl != model and ndis < 5:
                ndis += 1
                chk.tie_failure("translation-validation:uniform", f"generated kernel and Python class disagree on {desc}: impl={impl} model={model}")
    else:
        chk.tie_failure("driver", "model driver not built")
    # (b) frequency test with the real generators
    runs = 40000 if quick else 400000
    for (k, n) in [(1, 3), (2, 4), (2, 6), (3, 7)]:
        sd = (seed * 7919 + 1000 * k + n) % (2 ** 31)
        single, subsets = frequency_test(k, n, runs, sd)
        chk.case({"frequency-test": True, "k": k, "n": n, "runs": runs, "seed": sd,
                  "inclusion": [round(c / runs, 4) for c in single]}, nontrivial=True)
        chk.stat("real_rng_runs", runs)
        for i, c in enumerate(single):
            z = zscore(c, runs, k / n)
            if abs(z) > Z_LIMIT:
                chk.violation("inclusion-frequency",
                              f"size {k}, {n} observations, {runs} runs (seed {sd}): observation {i + 1} retained {c} times = "
                              f"{c / runs:.4f}, expected k/n = {k / n:.4f} (z = {z:.1f})",
                              {"k": k, "n": n, "runs": runs, "seed": sd, "arrival": i + 1, "count": c})
                break
        nsub = math.comb(n, k)
        for sub in itertools.combinations(range(n), k):
            c = subsets.get(sub, 0)
            z = zscore(c, runs, 1 / nsub)
            if abs(z) > Z_LIMIT:
                chk.violation("subset-frequency",
                              f"size {k}, {n} observations, {runs} runs (seed {sd}): subset {[i + 1 for i in sub]} held {c} times = "
                              f"{c / runs:.4f}, expected 1/C(n,k) = {1 / nsub:.4f} (z = {z:.1f})",
                              {"k": k, "n": n, "runs": runs, "seed": sd, "subset": [i + 1 for i in sub], "count": c})
                break
    chk.exhaustive = False
    chk.extra["explanation"] = ("Theorems: generated kernel has Algorithm L's shape (skip from the updated weight); acceptance history law "
                                "(moment functional) = independent Bernoulli(k/t); uniform inclusion law for every subset, all k, n. "
                                "Tie: scripted exact runs of the real class vs generated kernel and vs Algorithm L's recurrences; "
                                "fixed-seed frequency search on the real class.")
    return chk.finish()
