"""C15 — explainer call contract.

Stage A: Props/C15.lean (seen count, model-call budget 1 + d*n with the library imputer, storage update exactly once and
         last, return value = importance values, agreement of the effectful layer with the pure layer).
Stage B: what only the real Python can decide — constructor sweep from the documented required arguments (and each optional
         argument), the positional loss signature, str / int / float / mixed feature names — plus the counts and order of
         callbacks read off the instrumented run and compared with the Lean effectful model; non-modification of x, y and
         the name list by deep snapshots.
"""
import copy
import random as pyrandom
import warnings

from harness import core, explain, rng as hrng
from harness.q import Q, rs
from harness.props import _expl


def ctor_sweep(chk):
    """every explainer class from required arguments only, and with each optional argument overridden"""
    from ixai.explainer import IncrementalPFI, IncrementalSage
    from ixai.explainer.sage import BatchSage, IntervalSage
    from ixai.storage import GeometricReservoirStorage, IntervalStorage, BatchStorage
    from ixai.imputer import MarginalImputer

    def model(x):
        if isinstance(x, dict):
            return {"output": Q(sum(v for v in x.values()))}
        return [{"output": Q(sum(v for v in xi.values()))} for xi in x]

    def loss(truth, guess):  # documented POSITIONAL signature loss(y_true, y_pred_dict); parameter names are the user's
        return (Q(truth) - guess["output"]) ** 2
    fails = []
    for names in (["a", "b"], [0, 1], [0.5, 1.5], ["a", 1, 2.5]):
        def mk_storage():
            return GeometricReservoirStorage(size=3, store_targets=True, constant_probability=1.0)
        variants = []
        for cls in (IncrementalPFI, IncrementalSage):
            variants.append((cls.__name__ + "(required)", lambda cls=cls: cls(model, loss, names)))
            variants.append((cls.__name__ + "(dynamic_setting=False)", lambda cls=cls: cls(model, loss, names, dynamic_setting=False)))
            variants.append((cls.__name__ + "(smoothing_alpha=0.5)", lambda cls=cls: cls(model, loss, names, smoothing_alpha=Q(1, 2))))
            variants.append((cls.__name__ + "(n_inner_samples=2)", lambda cls=cls: cls(model, loss, names, n_inner_samples=2)))
            variants.append((cls.__name__ + "(storage=...)", lambda cls=cls: cls(model, loss, names, storage=mk_storage())))
            variants.append((cls.__name__ + "(static, smoothing_alpha=None)" if cls is IncrementalSage else cls.__name__ + "(static, alpha default)",
                             lambda cls=cls: cls(model, loss, names, dynamic_setting=False)))
        variants.append(("IncrementalSage(loss_bigger_is_better=True)", lambda: IncrementalSage(model, loss, names, loss_bigger_is_better=True)))
        variants.append(("BatchSage(required)", lambda: BatchSage(model, names, loss)))
        variants.append(("BatchSage(n_inner_samples=2)", lambda: BatchSage(model, names, loss, n_inner_samples=2)))
        variants.append(("IntervalSage(required)", lambda: IntervalSage(model, names, loss)))
        variants.append(("IntervalSage(interval_length=2, storage_length=2)", lambda: IntervalSage(model, names, loss, interval_length=2, storage_length=2)))
        for label, make in variants:
            chk.case({"ctor": label, "names": [core.canon_key(n) for n in names]}, nontrivial=True, sample=(label == "IncrementalSage(required)"))
            chk.stat("ctor_variants")
            try:
                with warnings.catch_warnings():
                    warnings.simplefilter("ignore")
                    ex = make()
                    out = None
                    for t in range(3):
                        x = {n: Q(t + i) for i, n in enumerate(names)}
                        kw = {"verbose": False} if "Batch" in label or "Interval" in label else {}
                        if "Interval" in label and t == 2:
                            kw["force_explain"] = True
                        out = ex.explain_one(x, Q(t), **kw)
                    keys = list(out.keys())
                    if sorted(map(core.canon_key, keys)) != sorted(map(core.canon_key, names)) or \
                            any(type(k) is not type(n) for k, n in zip(sorted(keys, key=core.canon_key), sorted(names, key=core.canon_key))):
                        fails.append((label, names, f"importance values keyed by {keys!r}, not by the feature names {names!r}"))
            except Exception as exn:
                fails.append((label, names, f"raised {core.err_kind(exn)}: {exn}"))
    # invalid alpha is rejected in dynamic mode, any alpha accepted range (0, 1]
    for a, ok in ((Q(0), False), (Q(-1, 2), False), (Q(3, 2), False), (Q(1), True), (Q(1, 1000), True)):
        for cls in (IncrementalPFI, IncrementalSage):
            try:
                with warnings.catch_warnings():
                    warnings.simplefilter("ignore")
                    cls(model, loss, ["a"], smoothing_alpha=a, dynamic_setting=True)
                made = True
            except AssertionError:
                made = False
            except Exception as exn:
                fails.append((cls.__name__, ["a"], f"smoothing_alpha={a} raised {core.err_kind(exn)}"))
                continue
            if made != ok:
                fails.append((cls.__name__, ["a"], f"smoothing_alpha={a} was {'accepted' if made else 'rejected'} in dynamic mode"))
    return fails


def contract_fails(rig, cfg, rec, t, upd, n_eff):
    d = cfg["d"]
    if rec["error"] is not None:
        return f"call {t + 1} raised {rec['error']}: {rec.get('error_text')}"
    if rec["seen"] != t + 1:
        return f"after call {t + 1}: seen_samples = {rec['seen']}"
    want_model = 0 if t == 0 else 1 + d * n_eff
    if rec["model_calls"] != want_model:
        return f"call {t + 1} evaluated the model {rec['model_calls']} times, expected {want_model} (d={d}, n_inner={n_eff})"
    if upd:
        if len(rec["storage_updates"]) != 1:
            return f"call {t + 1} updated the storage {len(rec['storage_updates'])} times"
        if rec["storage_updates"][0] != (rec["x"], rec["y"]):
            return f"call {t + 1} stored {rec['storage_updates'][0]} instead of the observation {(rec['x'], rec['y'])}"
        if not rec["log"].endswith("S") or "S" in rec["log"][:-1]:
            return f"call {t + 1}: storage update is not the last callback (call order {rec['log']})"
    elif rec["storage_updates"]:
        return f"call {t + 1} updated the storage although update_storage=False"
    if rec["mutated"]:
        return f"call {t + 1} modified x, y or the feature-name list"
    if rec["ret"] != rec["est"]["importance"]:
        return f"call {t + 1} returned {rec['ret']} but importance_values is {rec['est']['importance']}"
    if t >= 1 and [k for k, _ in rec["ret"]] != list(range(d)):
        return f"call {t + 1}: importance values keyed by {[k for k, _ in rec['ret']]}, expected exactly the {d} feature names"
    return None


def run(tier="quick", seed=0, replay=None):
    chk = core.Check("C15", tier, seed, "proof")
    chk.rule = ("constructor sweep: 4 explainer classes x {required only, each optional argument} x 4 name typings (str, int, float, "
                "mixed), 3 calls each; alpha range check; call contract: PFI/SAGE x d 1..4 x n_inner 1..3 x per-call n_inner override x "
                "update_storage pattern x name typings, MarginalImputer(joint) (the default imputer), 4-call streams. Non-trivial: "
                "always; distinct by hash.")
    chk.trusted = ["Lean 4.33.0 kernel", "axioms propext/Classical.choice/Quot.sound",
                   "hand-written effectful model Model/Effect.lean tied by this correspondence (call log, counts, post-state)"]
    chk.assumptions = ["C15 is partial: Python calling conventions, name typing and constructor defaults are decided by the correspondence run, not by a theorem"]
    if replay:
        print(open(replay).read())
        return 1
    core.lean_stage(chk, "C15")
    core.soft_bridge(chk)
    from harness import cover
    from harness import fingerprint
    fingerprint.direct(chk, ['ixai/explainer/pfi.py', 'ixai/explainer/sage/incremental.py', 'ixai/explainer/base.py', 'ixai/explainer/sage/batch.py', 'ixai/explainer/sage/interval.py'])
    _cv = cover.Cover(['ixai/explainer/pfi.py', 'ixai/explainer/sage/incremental.py', 'ixai/explainer/base.py', 'ixai/explainer/sage/batch.py', 'ixai/explainer/sage/interval.py'])
    _cv.__enter__()
    quick = tier == "quick"
    for label, names, f in ctor_sweep(chk)[:4]:
        chk.violation(f"ctor:{label}", f"{label} with feature names {names!r}: {f}", {"ctor": label, "names": [core.canon_key(n) for n in names]})
    reqs, impls = [], []
    for i in range(chk.count(40, 400)):
        kind = ["pfi", "sage"][i % 2]
        cfg = dict(kind=kind, d=chk.rng.randint(1, 4), dynamic=chk.rng.random() < 0.5, alpha=chk.rng.choice([Q(1, 2), Q(1, 3), Q(1)]),
                   n_inner=chk.rng.randint(1, 3), model_kind=chk.rng.choice(["scalar", "multi", "grow"]),
                   names_kind=chk.rng.choice(["str", "int", "float", "mixed", "intish"]), storage_kind=chk.rng.choice(["geom", "geom1", "batch"]),
                   storage_size=chk.rng.randint(1, 3), imputer_kind="joint", loss_kind="arbitrary", lbb=False, extra_features=chk.rng.choice([0, 1]))
        # a storage that already holds observations at the first call (shared, or filled by hand): the first call still only seeds
        # (no model evaluation), whatever the storage contains; not combined with the user-managed storage case below
        if i % 5 != 4 and i % 3 == 0:
            cfg["prefill"] = chk.rng.randint(1, 2)
            chk.stat("prefilled_storage_configs")
        rig = explain.Rig(chk.rng, **cfg)
        override = chk.rng.random() < 0.3
        desc = {"config": _expl.cfg_desc(cfg), "calls": []}
        bad = None
        uniform_n = True
        manual = (i % 5 == 4)   # the user manages the storage: update_storage=False on every call, explainer.update_storage(x, y) by hand
        for t in range(4):
            upd = (True if t == 0 else chk.rng.random() < 0.8) and not manual
            kw = {"update_storage": upd}
            n_eff = cfg["n_inner"]
            if override and t >= 1 and chk.rng.random() < 0.5:
                n_eff = chk.rng.randint(1, 3)
                kw["n_inner_samples"] = n_eff
                uniform_n = uniform_n and n_eff == cfg["n_inner"]
            rec = rig.step(**kw)
            desc["calls"].append({k: v for k, v in kw.items()})
            bad = contract_fails(rig, cfg, rec, t, upd, n_eff)
            if manual and not bad:
                nb = len(rig.ex._storage)
                rig.ex.update_storage(dict(rig.gen_x()), rig.gen_y())
                rig.storage_updates.pop()
                rig.log = []
                if len(rig.ex._storage) not in (nb + 1, nb) or (t == 0 and nb != 0):
                    bad = f"call {t + 1} with update_storage=False left {nb} observation(s) in a storage that only the user updates"
            if bad:
                chk.violation(f"contract:{kind}", f"{kind} {_expl.cfg_desc(cfg)}: {bad}", dict(desc, steps=[{k: r[k] for k in ('x', 'y', 'log')} for r in rig.steps]))
                break
        chk.case(dict(desc, first_x=rig.steps[0]["x"]), nontrivial=True, sample=(i < 2))
        chk.stat(f"kind:{kind}")
        chk.stat(f"names:{cfg['names_kind']}")
        if not bad and uniform_n and not manual:
            reqs.append(rig.eff_request(()))
            impls.append((cfg, rig))
    if core.driver_available():
        try:
            answers = core.run_driver(reqs)
        except Exception as ex:
            chk.tie_failure("driver", f"model driver failed: {ex}")
            answers = []
        ndis = 0
        for ans, (cfg, rig) in zip(answers, impls):
            chk.stat("model_vs_impl_compared")
            if "error" in ans:
                chk.tie_failure("driver", ans["error"])
                continue
            for t, (rec, a) in enumerate(zip(rig.steps, ans["steps"])):
                m_est = core.jnorm(explain.est_from_model(a["est"]))
                i_est = core.jnorm(rec["est"])
                diff = None
                if "error" in a["result"]:
                    diff = f"model raised {a['result']}"
                elif any(i_est[k] != m_est.get(k) for k in i_est):
                    diff = f"estimates impl={i_est} model={m_est}"
                elif rec["log"] != a["log"]:
                    diff = f"call log impl={rec['log']} model={a['log']}"
                elif core.jnorm(rec["ret"]) != core.jnorm(a["result"].get("ok")):
                    diff = f"return value impl={rec['ret']} model={a['result']}"
                if diff:
                    if ndis < 5:
                        ndis += 1
                        chk.tie_failure("correspondence:effectful", f"{_expl.cfg_desc(cfg)} call {t + 1}: {diff}"[:900])
                    break
    else:
        chk.tie_failure("driver", "model driver not built")
    _cv.__exit__(None, None, None)
    cover.gate(chk, _cv, only_functions=['IncrementalPFI', 'IncrementalSage', 'BaseIncrementalFeatureImportance.__init__', 'BaseIncrementalExplainer.__init__', 'BatchSage.__init__', 'IntervalSage.__init__'])
    chk.exhaustive = False
    chk.extra["explanation"] = ("Counting/ordering theorems (seen_counts, model_call_budget = 1 + d*n, storage_once_last, returns_importance_values, "
                                "agrees_with_pure) about the effectful model; the Python-level part (constructors from required arguments, positional "
                                "loss, name typing, non-modification) is decided on the real classes.")
    return chk.finish()
