"""C17 — a failing callback leaves the estimates untouched.

Stage A: Props/C17.lean (failure atomicity for every oracle = every fault position/sequence, error provenance,
         resume keeps any invariant of the estimates).
Stage B: FAULT ENUMERATION on the real explainers: for small configurations every invocation of every callback (model,
         loss — inside and outside the imputer —, storage update) in every explained call of a 4-call stream is made to
         raise once (plus random pairs of faults); the estimates before/after the failing call are compared, the stream is
         resumed and the efficiency identity re-checked; post-states, error kind and call log are compared with the Lean
         effectful model.
"""
import random as pyrandom

from harness import core, explain
from harness.q import Q, rs
from harness.props import _expl, c01


def build(seed, cfg):
    return explain.Rig(pyrandom.Random(seed), **cfg)


def run_stream(rig, nsteps, faults, upd_pattern):
    """returns list of (rec, est_before) ; faults: set of global invocation numbers that raise"""
    rig.fail_at = {c: True for c in faults}
    out = []
    for t in range(nsteps):
        before = rig.estimates()
        seen_before = rig.ex.seen_samples
        rec = rig.step(update_storage=upd_pattern[t])
        out.append((rec, before, seen_before))
    return out


class _Boom(Exception):
    pass


def batch_fault_scenario(kind, seed, d, n_inner, T, fail_at, original=False):
    """BatchSage / IntervalSage.explain_one on a stream of T observations; the `fail_at`-th callback invocation (model call, loss call,
    imputer call or storage update, counted over the whole stream) raises. Returns (records, total number of invocations); a record is
    (call number, importance values before, importance values after, exception or None, kinds of invocations made in the call)."""
    import copy
    import random as pyrandom
    import warnings
    import numpy as np
    from harness import rng as hrng
    from ixai.explainer.sage import BatchSage, IntervalSage
    from ixai.storage import BatchStorage, IntervalStorage
    from ixai.imputer import MarginalImputer
    r = pyrandom.Random(seed)
    names = ["a", "b", "c"][:d]
    coef = {f: Q(r.randint(-3, 3) or 1) for f in names}
    state = {"n": 0, "kinds": []}

    def tick(what):
        state["n"] += 1
        state["kinds"].append(what)
        if state["n"] == fail_at:
            raise _Boom(f"{what} failure at invocation {fail_at}")

    def one(z):
        return {"output": sum((coef[f] * z[f] for f in names), Q(1, 3)) + coef[names[0]] * z[names[0]] * z[names[-1]]}

    def model(z):
        tick("model")
        return one(z) if isinstance(z, dict) else [one(zi) for zi in z]

    def loss(y, p):
        tick("loss")
        return (p["output"] - y) * (p["output"] - y)

    base_storage = BatchStorage if kind == "batch" else IntervalStorage

    class Storage(base_storage):
        def update(self, x, y=None):
            tick("storage")
            return super().update(x, y)

    class Imputer(MarginalImputer):
        def impute(self, feature_subset, x_i, n_samples=None):
            tick("imputer")
            return super().impute(feature_subset, x_i, n_samples)
    records = []
    with warnings.catch_warnings():
        warnings.simplefilter("ignore")
        dr = hrng.Scripted(pyrandom.Random(seed + 1), real_fn=lambda g: g.random())
        with dr.installed():
            st = Storage(store_targets=True) if kind == "batch" else Storage(store_targets=True, size=3)
            imp = Imputer(model, "joint", st)
            if kind == "batch":
                ex = BatchSage(model_function=model, feature_names=list(names), loss_function=loss, n_inner_samples=n_inner, storage=st, imputer=imp)
            else:
                ex = IntervalSage(model_function=model, loss_function=loss, feature_names=list(names), n_inner_samples=n_inner,
                                  interval_length=2, storage=st, imputer=imp)
            for t in range(T):
                x = {f: Q(r.randint(-4, 4), r.randint(1, 3)) for f in names}
                y = Q(r.randint(-3, 3), 2)
                before = copy.deepcopy(dict(ex.importance_values))
                state["kinds"] = []
                err = None
                try:
                    if kind == "batch":
                        ex.explain_one(x, y, verbose=False, original_sage=original)
                    else:
                        ex.explain_one(x, y, verbose=False, force_explain=(t == 2))
                except _Boom as exn:
                    err = exn
                except Exception as exn:
                    err = exn
                records.append((t + 1, before, copy.deepcopy(dict(ex.importance_values)), err, "".join(k[0].upper() for k in state["kinds"])))
    return records, state["n"]


def batch_faults_fail(chk, kind, seed, d, n_inner, T, original=False):
    clean, total = batch_fault_scenario(kind, seed, d, n_inner, T, 0, original)
    for rec in clean:
        if rec[3] is not None:
            return None, f"fault-free call {rec[0]} raised {core.err_kind(rec[3])}: {rec[3]}"
    chk.stat(f"batch_fault_positions:{kind}", total)
    for k in range(1, total + 1):
        recs, _ = batch_fault_scenario(kind, seed, d, n_inner, T, k, original)
        hit = [r for r in recs if r[3] is not None]
        if not hit:
            return k, f"the callback at invocation {k} raised but no explain_one call raised (the exception did not propagate)"
        t, before, after, err, kinds = hit[0]
        chk.stat("batch_fault_hit:" + kinds[-1:])
        if not isinstance(err, _Boom):
            return k, f"call {t} raised {core.err_kind(err)}: {err} instead of propagating the callback's exception"
        if after != before or list(after.keys()) != list(before.keys()):
            return k, (f"the {({'M': 'model', 'L': 'loss', 'I': 'imputer', 'S': 'storage'}).get(kinds[-1:], '?')} raised at invocation {k} (the {len(kinds)}-th "
                       f"callback of call {t}) and the importance values changed from {before} to {after}")
        later = [r for r in recs if r[0] > t and r[3] is not None]
        if later:
            return k, f"after the caught failure at invocation {k}, call {later[0][0]} raised {core.err_kind(later[0][3])}: {later[0][3]}"
    return None, None


def array_outputs_fail(rng, kind, dynamic, fail_at):
    """a model whose output values are NumPy arrays (e.g. {'output': reg.predict(X)} of shape (1,)): in-place arithmetic on arrays can
    alias a working copy with the live trackers; estimates are compared BY VALUE before/after the failing call and against a twin run
    that never made the failed call"""
    import copy
    import warnings
    import numpy as np
    import random as pyrandom
    from harness import rng as hrng
    from ixai.explainer import IncrementalPFI, IncrementalSage
    from ixai.storage import GeometricReservoirStorage
    from ixai.imputer import MarginalImputer
    names = ["a", "b"]

    class Boom(Exception):
        pass

    def run(fail):
        state = {"calls": 0}

        def tick():
            c = state["calls"]
            state["calls"] += 1
            if fail is not None and c == fail:
                raise Boom()

        def model(x):
            tick()
            return {"output": np.array([1.5 * x["a"] - 0.5 * x["b"] * x["a"] + 0.25])}

        def loss(y, p):
            tick()
            return float(np.sum((np.asarray(p["output"], dtype=float) - y) ** 2))
        r = pyrandom.Random(7)
        d = hrng.Scripted(pyrandom.Random(11), real_fn=lambda g: g.random())
        snaps, failed_at = [], None
        with warnings.catch_warnings():
            warnings.simplefilter("ignore")
            with d.installed():
                st = GeometricReservoirStorage(size=3, store_targets=False, constant_probability=1.0)
                cls = IncrementalPFI if kind == "pfi" else IncrementalSage
                ex = cls(model, loss, names, storage=st, imputer=MarginalImputer(model, "joint", st), n_inner_samples=2,
                         dynamic_setting=dynamic, smoothing_alpha=0.5)

                def snap():
                    out = {"imp": {k: float(np.asarray(v).sum()) for k, v in ex.importance_values.items()},
                           "var": {k: float(np.asarray(v).sum()) for k, v in ex.variances.items()}}
                    if kind == "sage":
                        out["mp"] = {k: float(np.asarray(v).sum()) for k, v in ex.marginal_prediction.items()}
                        out["ml"] = float(np.asarray(ex.marginal_loss).sum())
                        out["mo"] = float(np.asarray(ex.model_loss).sum())
                    return out
                for t in range(7):
                    x = {"a": r.randint(-4, 4) / 2, "b": r.randint(-4, 4) / 2}
                    y = r.randint(-4, 4) / 2
                    before = snap()
                    try:
                        ex.explain_one(x, y)
                    except Boom:
                        failed_at = t
                        after = snap()
                        if after != before:
                            return None, f"a callback raised during call {t + 1} and the estimates changed from {before} to {after}"
                        continue
                    snaps.append(snap())
        return (snaps, failed_at), None
    (res, err) = run(fail_at)
    if err:
        return err
    snaps, failed_at = res
    if failed_at is None:
        return None
    # twin: the same stream without the failed call being made at all is not directly available (draws differ); compare instead with a
    # fault-free run restricted to the calls before the failure (prefix must agree) — and the failing call must not have left a trace in
    # what the NEXT calls report relative to re-running them from a deep copy (checked by value above)
    (twin, err2) = run(None)
    if err2:
        return None
    tw, _ = twin
    for i in range(min(failed_at, len(tw))):
        if snaps[i] != tw[i]:
            return f"prefix before the failure differs from the fault-free run at call {i + 1}"
    return None


def run(tier="quick", seed=0, replay=None):
    chk = core.Check("C17", tier, seed, "fault_enumeration")
    chk.level = "proof"
    chk.rule = ("BatchSage (explain_many and original mode) / IntervalSage: EVERY callback position (model, loss, imputer, storage) of short streams on the real classes; IncrementalPFI / IncrementalSage, d in 1..3, n_inner in 1..2, static/dynamic, MarginalImputer(joint) over a geometric "
                "reservoir, 4-call streams: EVERY callback invocation of every explained call fails once (single faults, exhaustive for "
                "the configuration), plus random pairs of faults. A case is one (configuration, fault set); non-trivial when the "
                "fault hits an explained call; distinct by hash.")
    chk.trusted = ["Lean 4.33.0 kernel", "axioms propext/Classical.choice/Quot.sound",
                   "hand-written effectful model Model/Effect.lean tied by this correspondence (post-state, error kind, call log)",
                   "exceptions raised by callbacks are ordinary Python exceptions propagating through explain_one"]
    chk.assumptions = ["estimates = importance values, variances, marginal/model loss, marginal prediction (seen_samples and storage are not estimates)"]
    if replay:
        print(open(replay).read())
        return 1
    core.lean_stage(chk, "C17", extra_props=["E2E", "E2Eb"])
    core.soft_bridge(chk)
    from harness import cover
    from harness import fingerprint
    fingerprint.direct(chk, ['ixai/explainer/pfi.py', 'ixai/explainer/sage/incremental.py'])
    _cv = cover.Cover(['ixai/explainer/pfi.py', 'ixai/explainer/sage/incremental.py'])
    _cv.__enter__()
    quick = tier == "quick"
    reqs, impls = [], []
    nconf = chk.count(8, 60)
    for ci in range(nconf):
        kind = ["sage", "pfi"][ci % 2]
        cfg = dict(kind=kind, d=chk.rng.randint(1, 3), dynamic=chk.rng.random() < 0.5, alpha=chk.rng.choice([Q(1, 2), Q(1, 3)]),
                   n_inner=chk.rng.randint(1, 2), model_kind=chk.rng.choice(["scalar", "grow"]), names_kind=chk.rng.choice(["str", "mixed"]),
                   storage_kind="geom", storage_size=2, imputer_kind="joint", loss_kind="arbitrary", lbb=False)
        sd = chk.rng.randrange(10 ** 9)
        upd = [True, chk.rng.random() < 0.7, chk.rng.random() < 0.7, True]
        base = build(sd, cfg)
        run_stream(base, 4, set(), upd)
        total = base.calls
        first_explained = base.steps[1]["calls0"]
        fault_sets = [{c} for c in range(first_explained, total)]
        for _ in range(chk.count(3, 10)):
            a = chk.rng.randrange(first_explained, total)
            b = chk.rng.randrange(first_explained, total)
            fault_sets.append({a, b})
        # fault-free correspondence
        reqs.append(base.eff_request(()))
        impls.append((cfg, (), base))
        for fs in fault_sets:
            rig = build(sd, cfg)
            res = run_stream(rig, 4, fs, upd)
            desc = {"config": _expl.cfg_desc(cfg), "seed": sd, "update_storage": upd, "faults": sorted(fs)}
            chk.case(desc, nontrivial=True, sample=(len(chk.samples) < 3))
            chk.stat(f"kind:{kind}")
            hit = False
            for t, (rec, before, seen_before) in enumerate(res):
                if rec["error"] == "fault":
                    hit = True
                    chk.stat("fault_hit:" + rec["log"][-1:])
                    if rec["est"] != before:
                        changed = [k for k in before if rec["est"].get(k) != before[k]]
                        chk.violation(f"not-atomic:{kind}",
                                      f"{kind} {_expl.cfg_desc(cfg)}: callback invocation {sorted(fs)} ({rec['log'][-1:]} = "
                                      f"{ {'M': 'model', 'L': 'loss', 'S': 'storage'}.get(rec['log'][-1:], '?') }) raised during call {t + 1} and "
                                      f"{changed} changed: before {[before[k] for k in changed]} after {[rec['est'][k] for k in changed]}",
                                      dict(desc, call=t + 1))
                        break
                elif rec["error"] is None and rec.get("fault_raised"):
                    chk.violation(f"swallowed:{kind}", f"{kind} {_expl.cfg_desc(cfg)}: the callback at invocation {sorted(fs)} raised during call {t + 1} but "
                                  f"explain_one returned normally (the exception did not propagate) with estimates {rec['est']}", dict(desc, call=t + 1))
                    break
                elif rec["error"] is not None:
                    chk.violation(f"exception:{kind}", f"{kind} {_expl.cfg_desc(cfg)} faults {sorted(fs)}: call {t + 1} raised "
                                  f"{rec['error']}: {rec.get('error_text')} instead of propagating the callback's exception", dict(desc, call=t + 1))
                    break
                elif kind == "sage" and t >= 1:
                    f = c01.identity_fails(rig) if t == len(res) - 1 else None
                    if f:
                        chk.violation("resume-efficiency", f"sage {_expl.cfg_desc(cfg)} after a caught failure at invocation {sorted(fs)} and "
                                      f"resuming: {f}", dict(desc, call=t + 1))
            if hit:
                reqs.append(rig.eff_request(sorted(fs)))
                impls.append((cfg, tuple(sorted(fs)), rig))
    # BatchSage / IntervalSage: every callback position of a short stream (they keep their values in one attribute, assigned at the end)
    for bi in range(chk.count(4, 24)):
        bkind = ["batch", "interval"][bi % 2]
        d, n_inner, T = chk.rng.randint(1, 3), chk.rng.randint(1, 2), (3 if bkind == "batch" else 5)
        original = bkind == "batch" and bi % 4 == 2
        sd = chk.rng.randrange(10 ** 9)
        dsc = {"batch_faults": True, "kind": bkind, "d": d, "n_inner": n_inner, "calls": T, "seed": sd, "original_sage": original}
        chk.case(dsc, nontrivial=True, sample=(bi < 2))
        chk.stat(f"kind:{bkind}")
        try:
            k, f = batch_faults_fail(chk, bkind, sd, d, n_inner, T, original)
        except Exception as ex:
            k, f = None, None
            chk.stat("batch_fault_harness_error:" + core.err_kind(ex))
        if f:
            chk.violation(f"not-atomic:{bkind}", f"{'BatchSage' if bkind == 'batch' else 'IntervalSage'}.explain_one (d={d}, n_inner={n_inner}, "
                          f"{'original SAGE, ' if original else ''}seed {sd}): {f}", dict(dsc, fail_at=k))
    for kind in ("sage", "pfi"):
        for dynamic in (False, True):
            for fail_at in range(8, 60, 3 if quick else 1):
                chk.case({"array_outputs": True, "kind": kind, "dynamic": dynamic, "fail_at_invocation": fail_at}, nontrivial=True, sample=False)
                chk.stat("array_output_fault_runs")
                try:
                    f = array_outputs_fail(chk.rng, kind, dynamic, fail_at)
                except Exception as ex:
                    f = None
                    chk.stat("array_output_harness_error:" + core.err_kind(ex))
                if f:
                    chk.violation(f"not-atomic-arrays:{kind}", f"{kind} (dynamic={dynamic}) with array-valued model outputs, failure at callback invocation {fail_at}: {f}",
                                  {"kind": kind, "dynamic": dynamic, "fail_at": fail_at, "array_outputs": True})
                    break
    if core.driver_available():
        try:
            answers = core.run_driver(reqs)
        except Exception as ex:
            chk.tie_failure("driver", f"model driver failed: {ex}")
            answers = []
        ndis = 0
        for ans, (cfg, fs, rig) in zip(answers, impls):
            chk.stat("model_vs_impl_compared")
            if "error" in ans:
                chk.tie_failure("driver", ans["error"])
                continue
            for t, (rec, a) in enumerate(zip(rig.steps, ans["steps"])):
                m_est = core.jnorm(explain.est_from_model(a["est"]))
                i_est = core.jnorm(rec["est"])
                m_res = "fault" if "error" in a["result"] else None
                diff = None
                if m_res != rec["error"]:
                    diff = f"result impl={rec['error']} model={a['result']}"
                elif any(i_est[k] != m_est.get(k) for k in i_est):
                    diff = f"estimates impl={i_est} model={m_est}"
                elif str(rec["seen"]) != core.jnorm(a["seen"]):
                    diff = f"seen impl={rec['seen']} model={a['seen']}"
                elif rec["log"] != a["log"]:
                    diff = f"call log impl={rec['log']} model={a['log']}"
                if diff:
                    failed_before = [u for u, r in enumerate(rig.steps[:t]) if r["error"] == "fault"]
                    if fs and failed_before and diff.startswith("estimates") and rec["error"] is None:
                        # the run agreed with the model up to and including the failing call; after resuming it no longer does: the failed call
                        # left a trace in state that is not visible in the reported estimates at once
                        chk.violation("trace-after-resume", f"{rig.kind} {_expl.cfg_desc(cfg)}: after the failure at invocation {list(fs)} (call {failed_before[0] + 1}) was "
                                      f"caught and the stream resumed, call {t + 1} reports {i_est} but a stream that never made the failed call gives {m_est}"[:1200],
                                      {"config": _expl.cfg_desc(cfg), "faults": list(fs), "call": t + 1})
                    elif ndis < 5:
                        ndis += 1
                        chk.tie_failure("correspondence:effectful", f"{_expl.cfg_desc(cfg)} faults={list(fs)} call {t + 1}: {diff}"[:900])
                    break
    else:
        chk.tie_failure("driver", "model driver not built")
    _cv.__exit__(None, None, None)
    cover.gate(chk, _cv, only_functions=['IncrementalPFI.explain_one', 'IncrementalSage.explain_one'])
    chk.exhaustive = True
    chk.extra["explanation"] = ("failure_atomic theorems quantify over every oracle (every fault position and sequence) of the effectful model; "
                                "the model is tied to pfi.py / incremental.py by enumerating every fault position of small configurations on the real "
                                "classes (post-state, error, call log), which is also the search for a failing input.")
    return chk.finish()
