"""C04 — unbiased updates: uniform orders and background rows.

Stage A: Props/C04.lean (pfi_update_unbiased, sage_contribution_expectation, sage_update_unbiased = Shapley value in
         permutation-average and subset-weight form, product strategy, BatchSage original mode) — finite-probability theorems
         over the explainer/imputer model, for all sizes.
Stage B: the real implementation's EXACT expected update for small sizes: every outcome of every draw the code makes
         (feature order, row indices) is enumerated by re-running the real explainer, each outcome weighted by 1/range for
         the range the code REQUESTED; the expectation must equal an independent brute-force evaluation of the exact
         quantity (Shapley value of the expected-loss game / expected loss increase), and the requested ranges must be the
         whole storage / data set and all d! orders.
"""
import itertools
import math
import random as pyrandom
import warnings
from fractions import Fraction

from harness import core, explain, rng as hrng
from harness.q import Q, rs
from harness.props import _expl


def mean_output(preds):
    labels = []
    for p in preds:
        for l in p:
            if l not in labels:
                labels.append(l)
    return {l: sum((p.get(l, 0) for p in preds), Q(0)) / len(preds) for l in labels}


def scenario_builder(seed, cfg, m):
    """returns run(draws) -> (rig, rows currently stored, x, y, returned values).  With a bounded storage the scenario is
    multi-step: the storage fills, one observation is explained (the imputer samples from the full storage), further
    observations replace stored rows, and only THEN the measured call happens — its background must be the CURRENT contents."""
    def run(draws):
        rig = explain.Rig(pyrandom.Random(seed), **cfg)
        rows = [rig.gen_x() for _ in range(m)]
        later = [rig.gen_x() for _ in range(m)]
        x0, y0 = rig.gen_x(), rig.gen_y()
        x, y = rig.gen_x(), rig.gen_y()
        with warnings.catch_warnings():
            warnings.simplefilter("ignore")
            pre = hrng.Scripted(pyrandom.Random(seed + 1), real_fn=lambda r: 0.0)   # draws of the preparation phase are fixed
            with pre.installed():
                rig.ex.explain_one(rows[0], Q(0))          # first call only seeds the storage
                for r in rows[1:]:
                    rig.ex.update_storage(r, Q(0))
                if cfg["storage_kind"] != "batch":
                    rig.ex.explain_one(x0, y0, update_storage=False)
                    for r in later:
                        rig.ex.update_storage(r, Q(0))
            ret = rig.ex.explain_one(x, y, update_storage=False)
        now = [dict(r) for r in rig.ex._storage.get_data()[0]]
        return rig, now, x, y, ret
    return run


def brute_force(rig, rows, x, y, cfg, m):
    """independent evaluation of the exact quantities from the definition"""
    d, n = cfg["d"], cfg["n_inner"]
    names = rig.names
    saved = (rig.calls, list(rig.log))

    def model(z):
        return rig._model_one(z)

    def loss(p):
        return rig.loss_fn(y, p)

    def imputed(T, choice):
        """inputs for subset T (feature names) with `choice`: joint -> row index; product -> dict f -> row index"""
        z = dict(x)
        for f in T:
            r = choice if cfg["imputer_kind"] == "joint" else choice[f]
            z[f] = rows[r][f]
        return z

    def v(T):
        """expected loss of the mean of n predictions with the features in T imputed"""
        T = list(T)
        if cfg["imputer_kind"] == "joint":
            space = list(itertools.product(range(m), repeat=n))
            tot = Q(0)
            for rs_ in space:
                tot += loss(mean_output([model(imputed(T, r)) for r in rs_]))
            return tot / len(space)
        per_sample = [dict(zip(T, c)) for c in itertools.product(range(m), repeat=len(T))]
        space = list(itertools.product(per_sample, repeat=n))
        tot = Q(0)
        for cs in space:
            tot += loss(mean_output([model(imputed(T, c)) for c in cs]))
        return tot / len(space)
    out = {}
    if cfg["kind"] == "pfi":
        base = loss(model(x))
        for i, f in enumerate(names):
            # E[mean of n losses] = average single-sample loss
            tot = Q(0)
            for r in range(m):
                tot += loss(model(imputed([f], r if cfg["imputer_kind"] == "joint" else {f: r})))
            out[i] = tot / m - base
    else:
        mp = rig.ex.marginal_prediction
        l0 = loss(mp)
        vals = {}

        def w(S):
            key = tuple(sorted(core.canon_key(s_) for s_ in S))
            if key not in vals:
                vals[key] = l0 if not S else v([f for f in names if f not in S])
            return vals[key]
        for i, f in enumerate(names):
            tot = Q(0)
            for pi in itertools.permutations(names):
                k = pi.index(f)
                tot += w(set(pi[:k])) - w(set(pi[:k + 1]))
            out[i] = tot / math.factorial(d)
    return out


def run(tier="quick", seed=0, replay=None):
    chk = core.Check("C04", tier, seed, "proof")
    chk.rule = ("IncrementalPFI / IncrementalSage with alpha = 1 (so the importance after one explained call IS the contribution), d in 1..3, "
                "m in 1..3 stored rows, n_inner in 1..2, joint / product imputer, scalar / multi-label models, arbitrary loss; BatchSage "
                "original mode with 2 (quick) / 3 (thorough) observations. Every outcome of every draw enumerated (exhaustive per case). "
                "Non-trivial: m >= 2 (a genuine choice of rows); distinct by hash.")
    chk.trusted = ["Lean 4.33.0 kernel", "axioms propext/Classical.choice/Quot.sound",
                   "np.random.permutation uniform over the d! orders; random.randrange(m)/randint uniform over the requested range; draws independent",
                   "hand-written model tied by C02/C03/C05/C06 correspondence; here the implementation's exact distribution is compared with the proved right-hand side"]
    chk.assumptions = ["expectation is taken with the current storage contents fixed"]
    if replay:
        print(open(replay).read())
        return 1
    core.lean_stage(chk, "C04")
    quick = tier == "quick"
    cases = []
    for kind in ("pfi", "sage"):
        for d in (1, 2, 3):
            for m in (1, 2, 3):
                for n in (1, 2):
                    for ik in ("joint", "product"):
                        cost = (math.factorial(d) if kind == "sage" else 1) * (m ** (n * (d if ik == "joint" else d * (d + 1) // 2)))
                        if kind == "pfi":
                            cost = m ** (n * d)
                        if cost > (400 if quick else 6000):
                            continue
                        cases.append((kind, d, m, n, ik))
    chk.rng.shuffle(cases)
    cases = cases[: (26 if quick else 200)]
    for kind, d, m, n, ik in cases:
        sk = chk.rng.choice(["batch", "interval", "geom1"])
        cfg = dict(kind=kind, d=d, dynamic=True, alpha=Q(1), n_inner=n, model_kind=chk.rng.choice(["scalar", "multi"]),
                   names_kind=chk.rng.choice(["str", "mixed"]), storage_kind=sk, storage_size=m, imputer_kind=ik,
                   loss_kind="arbitrary", lbb=False)
        sd = chk.rng.randrange(10 ** 9)
        scen = scenario_builder(sd, cfg, m)
        expect = None
        acc = {}
        total_w = Fraction(0)
        ranges_seen = set()
        nout = 0
        bad = None
        chk.stat(f"storage:{sk}")
        for wgt, (rig, rows, x, y, ret), choices in hrng.enumerate_outcomes(lambda dr: scen(dr)):
            nout += 1
            total_w += wgt
            for f, val in rig.fdict(ret):
                acc[f] = acc.get(f, Fraction(0)) + wgt * Fraction(val)
            if expect is None:
                expect = brute_force(rig, rows, x, y, cfg, len(rows))
                last = rig
        desc = {"config": _expl.cfg_desc(cfg), "seed": sd, "stored_rows": m, "outcomes": nout,
                "expected_update": {str(k): rs(v) for k, v in (expect or {}).items()}}
        chk.case(desc, nontrivial=m >= 2)
        chk.stat(f"kind:{kind}")
        chk.stat("outcomes_enumerated", nout)
        if total_w != 1:
            chk.tie_failure("enumeration", f"outcome weights sum to {total_w} for {desc}")
            continue
        for f in range(d):
            if Fraction(acc.get(f, 0)) != Fraction(expect[f]):
                chk.violation(f"biased:{kind}",
                              f"{kind} {_expl.cfg_desc(cfg)} with {m} stored rows: expected contribution of feature {last.names[f]!r} over all "
                              f"{nout} draw outcomes is {rs(Q(acc.get(f, 0)))} but the exact quantity defined by the storage "
                              f"({'Shapley value of the expected-loss game' if kind == 'sage' else 'expected loss increase under resampling'}) is {rs(expect[f])}",
                              dict(desc, feature=f, observed=rs(Q(acc.get(f, 0)))))
                break
    # BatchSage original mode: rows drawn uniformly from the whole data set
    for rep in range(3 if quick else 12):
        N = 2 if (quick or rep % 2 == 0) else 3
        d, n = 2, 1
        cfg = dict(kind="batch", d=d, n_inner=n, model_kind="scalar", names_kind="str", storage_kind="batch", storage_size=1,
                   imputer_kind="joint", loss_kind="arbitrary")
        sd = chk.rng.randrange(10 ** 9)

        earlier = (0, 1, 2)[rep % 3]

        def scen(draws, sd=sd, cfg=cfg, N=N, earlier=earlier):
            rig = explain.Rig(pyrandom.Random(sd), **cfg)
            data = [(rig.gen_x(), rig.gen_y()) for _ in range(N)]
            # rows collected earlier (update_storage) are not part of the data set handed to original mode
            for _ in range(earlier):
                rig.ex.update_storage(rig.gen_x(), rig.gen_y())
            with warnings.catch_warnings():
                warnings.simplefilter("ignore")
                ret = rig.ex.explain_many_original([a for a, _ in data], [b for _, b in data], verbose=False)
            return rig, data, ret
        acc, total_w, nout, ranges = {}, Fraction(0), 0, set()
        first = None
        for wgt, (rig, data, ret), choices in hrng.enumerate_outcomes(scen):
            nout += 1
            total_w += wgt
            for f, val in rig.fdict(ret):
                acc[f] = acc.get(f, Fraction(0)) + wgt * Fraction(val)
            if first is None:
                first = (rig, data)
        rig, data = first
        names = rig.names
        outs = [rig._model_one(a) for a, _ in data]
        marg = mean_output(outs)
        expect = {i: Q(0) for i in range(d)}
        for (x, y), o in zip(data, outs):
            def w(S, x=x, y=y):
                if not S:
                    return rig.loss_fn(y, marg)
                tot = Q(0)
                for r in range(N):
                    z = dict(data[r][0])
                    for f in S:
                        z[f] = x[f]
                    tot += rig.loss_fn(y, mean_output([rig._model_one(z)]))
                return tot / N
            for i, f in enumerate(names):
                tot = Q(0)
                for pi in itertools.permutations(names):
                    k = pi.index(f)
                    tot += w(list(pi[:k])) - w(list(pi[:k + 1]))
                expect[i] += tot / math.factorial(d) / N
        desc = {"batch_original": True, "observations": N, "d": d, "seed": sd, "outcomes": nout, "rows_stored_earlier": earlier}
        chk.case(desc, nontrivial=True)
        chk.stat("kind:batch-original")
        chk.stat(f"batch-original:rows_stored_earlier={earlier}")
        chk.stat("outcomes_enumerated", nout)
        for f in range(d):
            if Fraction(acc.get(f, 0)) != Fraction(expect[f]):
                chk.violation("biased:batch-original",
                              f"BatchSage.explain_many_original over {N} observations: expected value of feature {names[f]!r} over all {nout} draw "
                              f"outcomes is {rs(Q(acc.get(f, 0)))}, the average Shapley value with background rows uniform over the whole data set is {rs(expect[f])}",
                              dict(desc, feature=f))
                break
    chk.exhaustive = True
    chk.extra["explanation"] = ("Theorems: E[contribution] = Shapley value (permutation average and subset form) of the expected-loss game for joint/product "
                                "strategy and original mode; E[PFI contribution] = mean loss under uniform resampling minus original loss; for all d, m, n. "
                                "The real code's exact expectation (all draw outcomes, weighted by the ranges it requested) equals an independent brute "
                                "force of those quantities for the listed sizes.")
    return chk.finish()
