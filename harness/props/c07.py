"""C07 — storages hold only observed data, within capacity, targets aligned.

Stage A: theorems of Props/C07.lean over the storage kernels regenerated from ixai/storage/*.py.
Stage B: translation validation: generated kernels (driver) vs the real classes under scripted draws (exact rationals,
         uninterpreted exp/log/floor replaced by the same exact stand-ins on both sides); and the invariant evaluated
         on the real classes under scripted and real (seeded) draws.
"""
import itertools
import random as pyrandom

from harness import core, rng as hrng, storages as S
from harness.q import Q, rs

FILES = ["ixai/storage/base.py", "ixai/storage/batch_storage.py", "ixai/storage/interval_storage.py",
         "ixai/storage/sequence_storage.py", "ixai/storage/reservoir_storage.py",
         "ixai/storage/uniform_reservoir_storage.py", "ixai/storage/geometric_reservoir_storage.py"]


def run_impl(kind, size, targets, p, n, reals, idxs, every=None):
    """real class under a scripted draw list; returns observable dict (or error kind)"""
    d = hrng.Scripted(pyrandom.Random(0), reals=reals, idxs=idxs)
    try:
        with d.installed():
            ctx = S.fake_np_in_uniform() if kind == "uniform" else None
            if ctx:
                ctx.__enter__()
            try:
                st = S.make_storage(kind, size, targets, p)
                for i in range(n):
                    st.update({"id": i}, 1000 + i)
                    if every is not None:
                        every(i + 1, st)
            finally:
                if ctx:
                    ctx.__exit__(None, None, None)
        ids, ys = S.contents(st)
        out = {"x": ids, "y": ys}
        nreal = sum(1 for k, _, _ in d.log if k == "real")
        nidx = sum(1 for k, _, _ in d.log if k == "index")
        if kind in ("geom", "uniform"):
            out["rpos"], out["ipos"] = nreal, nidx
        if kind == "geom":
            # the default `1 / size` is a float in Python and an exact rational in the model: compare within one ulp
            cp = st.constant_probability
            out["p"] = (Q(1) / size) if (p is None and abs(float(cp) - 1.0 / size) <= 1e-15) else cp
        if kind == "uniform":
            out["wt"], out["counter"], out["seen"] = st._algo_wt, st._algo_l_counter, st.stored_samples
        out["ranges"] = [r for k, r, _ in d.log if k == "index"]
        return out, st
    except Exception as ex:
        return {"error": core.err_kind(ex)}, None


def gen_cases(chk):
    rng = chk.rng
    quick = chk.tier == "quick"
    # complete small space for the deterministic storages
    for targets in (True, False):
        for n in range(0, 8):
            yield ("batch", None, targets, None, n, [], [])
            yield ("sequence", None, targets, None, n, [], [])
            for size in (1, 2, 3, 5):
                yield ("interval", size, targets, None, n, [], [])
    # geometric: every accept/reject + slot script up to capacity 2 (quick) / 3 (thorough), capacity+3 / +4 updates
    kmax, extra = (2, 3) if quick else (3, 4)
    for k in range(1, kmax + 1):
        for p in (None, Q(1, 2), Q(1), Q(0)):
            for script in itertools.product(range(k + 1), repeat=extra):  # 0 = reject, j+1 = accept into slot j
                reals = [Q(0) if s else Q(99, 100) for s in script]
                if p is not None and p == 1:
                    reals = [Q(0) if s else Q(1) for s in script]  # u = 1 ≤ p = 1 still accepts
                idxs = [s - 1 if s else 0 for s in script]
                yield ("geom", k, True, p, k + extra, reals, idxs)
    # random scripts for both reservoirs
    nrand = 300 if quick else 4000
    for _ in range(nrand):
        kind = rng.choice(["geom", "uniform"])
        k = rng.randint(1, 5)
        n = rng.randint(0, 4 * k + 6)
        targets = rng.random() < 0.6
        reals = [Q(rng.randint(1, 99), 100) for _ in range(2 * n + 4)]
        idxs = [rng.randrange(k) for _ in range(n + 2)]
        p = rng.choice([None, Q(1, 3), Q(1, 2), Q(1), Q(9, 10)]) if kind == "geom" else None
        yield (kind, k, targets, p, n, reals, idxs)


def run(tier="quick", seed=0, replay=None):
    chk = core.Check("C07", tier, seed, "proof")
    chk.rule = ("(kind, capacity, store_targets, p, number of tagged updates, draw script). Deterministic storages: all "
                "n<=7, sizes {1,2,3,5}; geometric: every accept/slot script for capacity<=2 (+3 updates) quick / <=3 (+4) "
                "thorough, p in {default,1/2,1,0}; random scripts for geometric and uniform (capacity 1..5, up to 4k+6 "
                "updates); plus real seeded generators on the real classes. Non-trivial: at least one update; distinct by hash.")
    chk.trusted = ["Lean 4.33.0 kernel", "axioms propext/Classical.choice/Quot.sound", "py2lean translator + schema (validated here)",
                   "driver JSON glue", "random.randrange(n) returns a value in range(n) (library contract; the theorems do not need it)"]
    chk.assumptions = ["capacity >= 1 for IntervalStorage (interval_size_zero documents size 0)",
                       "exp/log/floor are uninterpreted in the theorems; the tie replaces them by the same exact functions on both sides"]
    if replay:
        return do_replay(chk, replay)
    core.lean_stage(chk, "C07")
    reqs, impls = [], []
    for case in gen_cases(chk):
        kind, size, targets, p, n, reals, idxs = case
        desc = {"kind": kind, "size": size, "targets": targets, "p": rs(p) if p is not None else None, "n": n,
                "reals": [rs(r) for r in reals[:12]], "idxs": idxs[:12]}
        chk.case(desc, nontrivial=n > 0)
        chk.stat(f"kind:{kind}")
        viol = []

        def every(i, st, kind=kind, size=size, targets=targets):
            f = S.check_invariant(kind, size, targets, i, st)
            if f and not viol:
                viol.append((i, f))
        out, st = run_impl(kind, size, targets, p, n, list(reals), list(idxs), every=every)
        if viol:
            i, f = viol[0]
            chk.violation(f"{kind}", f"{kind} storage (size={size}, store_targets={targets}, p={desc['p']}) after {i} updates: {f}",
                          dict(desc, n=i, reals=[rs(r) for r in reals], idxs=idxs))
        if "error" in out:
            chk.stat("impl_error:" + out["error"])
        if "ranges" in out and any(r != size for r in out["ranges"]):
            chk.violation(f"{kind}:range", f"{kind} storage requested slot range {out['ranges']} for capacity {size}", desc)
        if core.driver_available():
            req = {"op": "storage", "kind": kind, "n": n, "targets": targets}
            if size is not None:
                req["size"] = size
            if kind == "geom":
                req["p"] = rs(p) if p is not None else None
            if kind in ("geom", "uniform"):
                req["reals"] = [rs(r) for r in reals]
                req["idxs"] = idxs
            reqs.append(req)
            impls.append((desc, out))
    # ---- real generators on the real classes (oracle only)
    nreal = 150 if tier == "quick" else 2500
    for t in range(nreal):
        kind = chk.rng.choice(["geom", "uniform", "interval", "batch", "sequence"])
        size = chk.rng.randint(1, 6)
        targets = chk.rng.random() < 0.5
        n = chk.rng.randint(1, 60)
        p = chk.rng.choice([None, 0.3, 1.0]) if kind == "geom" else None
        sd = chk.rng.randrange(10 ** 6)
        f = real_run_fails(kind, size, targets, p, n, sd)
        chk.case({"real_rng": True, "kind": kind, "size": size, "targets": targets, "n": n, "seed": sd}, nontrivial=True, sample=False)
        chk.stat("real_rng_runs")
        if f:
            chk.violation(f"{kind}", f"{kind} storage (size={size}, store_targets={targets}, p={p}, seed={sd}): {f}",
                          {"real_rng": True, "kind": kind, "size": size, "targets": targets, "p": p, "n": n, "seed": sd})
    # ---- compare generated model with implementation
    if reqs:
        try:
            answers = core.run_driver(reqs)
        except Exception as ex:
            chk.tie_failure("driver", f"model driver failed: {ex}")
            answers = []
        ndis = 0
        for ans, (desc, out) in zip(answers, impls):
            chk.stat("model_vs_impl_compared")
            impl = {k: core.canon(v) for k, v in out.items() if k != "ranges"}
            model = core.jnorm({k: ans.get(k) for k in impl}) if "error" not in ans else ans
            if impl != model and ndis < 5:
                ndis += 1
                chk.tie_failure(f"translation-validation:{desc['kind']}",
                                f"generated Lean kernel and Python class disagree on {desc}: impl={impl} model={model}")
    else:
        chk.tie_failure("driver", "model driver not built")
    chk.exhaustive = False
    chk.extra["explanation"] = ("Stage A: theorems of Props/C07.lean over the regenerated storage kernels (every update sequence, "
                                "capacity, flag and draw value). Stage B: generated kernels vs real classes under the same "
                                "scripted draws; C07's invariant evaluated on the real classes after every update.")
    return chk.finish()


def real_run_fails(kind, size, targets, p, n, sd):
    import random
    import numpy as np
    random.seed(sd)
    np.random.seed(sd)
    st = S.make_storage(kind, size, targets, p)
    # targets include None (the documented default of update) and repeated values: alignment is positional
    ylist = [None if (i + sd) % 3 == 1 else ((i * 7) % 4 if (i + sd) % 5 == 0 else 1000 + i) for i in range(n)]
    for i in range(n):
        if ylist[i] is None and (i + sd) % 2 == 0:
            st.update({"id": i})
        else:
            st.update({"id": i}, ylist[i])
        f = S.check_invariant(kind, size, targets, i + 1, st, ylist)
        if f:
            return f"after {i + 1} updates (targets {ylist[:i + 1]}): {f}"
    return None


def do_replay(chk, path):
    import json
    from fractions import Fraction
    r = json.load(open(path))
    rp = r.get("replay") or {}
    if not rp:
        print(json.dumps(r, indent=1))
        return 1
    if rp.get("real_rng"):
        f = real_run_fails(rp["kind"], rp["size"], rp["targets"], rp.get("p"), rp["n"], rp["seed"])
    else:
        viol = []
        p = Q(Fraction(rp["p"])) if rp.get("p") is not None else None

        def every(i, st):
            g = S.check_invariant(rp["kind"], rp["size"], rp["targets"], i, st)
            if g and not viol:
                viol.append(f"after {i} updates: {g}")
        run_impl(rp["kind"], rp["size"], rp["targets"], p, rp["n"], [Q(Fraction(x)) for x in rp["reals"]], list(rp["idxs"]), every)
        f = viol[0] if viol else None
    print(f"replay {path}: {'FAILS: ' + f if f else 'passes on the current tree'}")
    return 1 if f else 0
