"""C16 — normalised importances and confidence bounds are well-formed.

Stage A: Props/C16.lean (normalize_*; conf_bound_formula / nonneg / pos / antitone) and Props/C16a.lean (variance_nonneg in
         every reachable PFI / SAGE state).
Stage B: `_normalize_importance_values` vs the Lean model on exact dictionaries (all-zero, sign-mixed, zero-sum,
         single-entry, equal values) and a numeric-type sweep for "never NaN or infinite"; `get_confidence_bound` on real
         explainers vs the Lean model in binary64 and vs the formula; tracked variances of real explainers >= 0.
"""
import math
import struct
import warnings

from harness import core, explain
from harness.q import Q, rs
from harness.props import _expl


def bits(f):
    return str(struct.unpack("<Q", struct.pack("<d", float(f)))[0])


def unbits(s):
    return struct.unpack("<d", struct.pack("<Q", int(s)))[0]


def norm_real(vals, mode):
    from ixai.explainer.base import BaseIncrementalFeatureImportance as B
    return B._normalize_importance_values(dict(vals), mode=mode)


def gen_vals(rng):
    n = rng.randint(1, 5)
    style = rng.choice(["rand", "zero", "zerosum", "equal", "mixed", "single", "empty"])
    if style == "empty":    # what importance_values is before the first estimate exists
        return style, {}
    keys = ["a", 1, 2.5, "d", 7][:n]
    if style == "zero":
        vs = [Q(0)] * n
    elif style == "equal":
        vs = [Q(rng.randint(-3, 3), 2)] * n
    elif style == "zerosum" and n >= 2:
        vs = [Q(rng.randint(-4, 4)) for _ in range(n - 1)]
        vs.append(-sum(vs, Q(0)))
    elif style == "single":
        keys, vs = keys[:1], [Q(rng.randint(-3, 3))]
    else:
        vs = [Q(rng.randint(-6, 6), rng.randint(1, 3)) for _ in range(n)]
    return style, dict(zip(keys, vs))


def normalize_oracle(vals, mode, out):
    vs = list(vals.values())
    if not vs:
        return None if out == {} else f"nothing to normalise but the result is {out}"
    factor = (max(vs) - min(vs)) if mode == "delta" else sum(vs, Q(0))
    if list(out.keys()) != list(vals.keys()):
        return f"keys changed: {list(out.keys())}"
    if factor == 0:
        if any(not (v == 0) for v in out.values()):
            return f"normaliser is zero but the result is {out}"
        return None
    for k in vals:
        if out[k] * factor != vals[k]:
            return f"ratio not kept for {k!r}: {out[k]} * {factor} != {vals[k]}"
    ov = list(out.values())
    if mode == "sum" and sum(ov, Q(0)) != 1:
        return f"'sum' mode values add up to {sum(ov, Q(0))}"
    if mode == "delta" and max(ov) - min(ov) != 1:
        return f"'delta' mode range is {max(ov) - min(ov)}"
    return None


def type_sweep():
    import numpy as np
    bad = []
    for name, conv in [("int", int), ("float", float), ("np.float64", np.float64), ("np.float32", np.float32), ("np.int64", np.int64)]:
        cases = [{"a": 0, "b": 0}, {"a": 1, "b": -1}, {"a": 2, "b": 2}, {"a": 3}, {"a": 0}, {}]
        if name in ("float", "np.float64"):
            # non-zero but tiny (subnormal) and huge normalisers: the result must still be finite
            cases += [{"a": 1e-310, "b": 2e-310, "c": 0.0}, {"a": 5e-324, "b": 0.0}, {"a": 1e308, "b": 0.5e308}, {"a": -1e-320, "b": 3e-320}]
        for vals in cases:
            for mode in ("sum", "delta"):
                with np.errstate(all="ignore"), warnings.catch_warnings():
                    warnings.simplefilter("ignore")
                    try:
                        out = norm_real({k: conv(v) for k, v in vals.items()}, mode)
                    except Exception as ex:
                        bad.append((name, vals, mode, f"raised {core.err_kind(ex)}"))
                        continue
                if any(not math.isfinite(float(v)) for v in out.values()):
                    bad.append((name, vals, mode, {k: repr(v) for k, v in out.items()}))
    return bad


def run(tier="quick", seed=0, replay=None):
    chk = core.Check("C16", tier, seed, "proof")
    chk.rule = ("normalisation: dictionaries of 0..5 entries in 7 styles (random, all zero, zero sum, all equal, sign-mixed, single, empty) x "
                "modes sum/delta, exact rationals; numeric-type sweep (int, float, np.float64, np.float32, np.int64). Confidence "
                "bound: real PFI/SAGE explainers (dynamic, alpha in (0,1]) after 0..6 calls, delta in {1e-3..1}. Variances: every "
                "reachable state of those runs. Non-trivial: >= 2 entries / >= 1 explained call; distinct by hash.")
    chk.trusted = ["Lean 4.33.0 kernel", "axioms propext/Classical.choice/Quot.sound",
                   "hand-written model (normalize, confBound in Model/Explainer.lean) tied by this correspondence",
                   "math.sqrt is a genuine square root (GenuineSqrt hypothesis; instantiated for Real.sqrt)"]
    chk.assumptions = ["the confidence bound is queried in states where a variance is tracked for every feature (before the first estimate `variances` is empty and the formula has no variance to refer to; get_confidence_bound raises KeyError there)",
                       "'never NaN or infinite whatever numeric type' is decided by the type sweep on the real code (a field has no NaN)",
                       "confidence bound positivity is stated under alpha < 1 or variance > 0 (at alpha = 1, variance = 0, t >= 1 the formula itself is 0)"]
    if replay:
        print(open(replay).read())
        return 1
    core.lean_stage(chk, "C16", extra_props=["C16a"])
    core.soft_stage(chk, ["C16b"], "confidence-bound expression regenerated from base.py = Model/Explainer.lean confBound")
    core.soft_bridge(chk, props=("GenNormalize",))
    from harness import cover
    from harness import fingerprint
    fingerprint.direct(chk, ['ixai/explainer/base.py'])
    _cv = cover.Cover(['ixai/explainer/base.py'])
    _cv.__enter__()
    quick = tier == "quick"
    reqs, impls = [], []
    ids = explain.Ids()
    for i in range(chk.count(200, 3000)):
        style, vals = gen_vals(chk.rng)
        for mode in ("sum", "delta"):
            desc = {"normalize": mode, "vals": {core.canon_key(k): rs(v) for k, v in vals.items()}}
            chk.case(desc, nontrivial=len(vals) >= 2)
            chk.stat(f"style:{style}")
            try:
                out = norm_real(vals, mode)
                f = normalize_oracle(vals, mode, out)
            except Exception as ex:
                out, f = None, f"raised {core.err_kind(ex)}: {ex}"
            if f:
                chk.violation(f"normalize:{mode}", f"_normalize_importance_values({desc['vals']}, mode={mode!r}): {f}", desc)
            else:
                reqs.append({"op": "normalize", "delta": mode == "delta", "vals": [[ids.of(k), rs(v)] for k, v in vals.items()]})
                impls.append(("normalize", desc, [[ids.of(k), rs(v)] for k, v in out.items()]))
    for name, vals, mode, out in type_sweep()[:3]:
        chk.violation(f"normalize-type:{name}", f"_normalize_importance_values with {name} values {vals}, mode={mode!r}: {out}",
                      {"type": name, "vals": vals, "mode": mode})
    chk.stat("type_sweep_cases", 50)
    # confidence bounds and variances on real explainers (float mode is not needed: alpha, variances are exact rationals -> float())
    for i in range(chk.count(30, 300)):
        kind = chk.rng.choice(["pfi", "sage"])
        cfg = next(iter(_expl.gen_configs(chk, kind, 1)))
        alpha = chk.rng.choice([Q(1), Q(1, 2), Q(1, 3), Q(1, 1000), Q(999, 1000)])
        dyn = chk.rng.random() < 0.65      # the bound is also defined (and computed from the CONFIGURED alpha) in the static setting
        cfg = dict(cfg, d=chk.rng.randint(1, 4), dynamic=dyn, alpha=alpha, static_alpha=True, model_kind="scalar", imputer_kind="joint",
                   names_kind=chk.rng.choice(["str", "int", "float", "mixed", "intish", "intish"]), loss_kind="arbitrary", n_inner=1)
        rig = _expl.run_stream(chk, cfg, chk.rng.randint(0, 6))    # 0 and 1 calls: states without any estimate yet
        chk.case({"confidence_bound": True, "config": _expl.cfg_desc(cfg), "first_x": rig.steps[0]["x"] if rig.steps else None, "calls": len(rig.steps)}, nontrivial=True, sample=(i < 1))
        chk.stat("explainer_runs")
        ex = rig.ex
        var = ex.variances
        neg = [k for k, v in var.items() if v < 0]
        if neg:
            chk.violation("variance-negative", f"{kind} {_expl.cfg_desc(cfg)}: variance of {neg} is negative: {var}", _expl.replay_payload(rig, cfg, len(rig.steps) - 1))
            continue
        for mode in ("sum", "delta"):
            try:
                pub = ex.get_normalized_importance_values(mode)
                f = normalize_oracle(dict(ex.importance_values), mode, pub)
            except Exception as exn:
                f = f"raised {core.err_kind(exn)}: {exn}"
            if f:
                chk.violation(f"normalize-public:{mode}", f"{kind} {_expl.cfg_desc(cfg)}: get_normalized_importance_values({mode!r}): {f}",
                              _expl.replay_payload(rig, cfg, len(rig.steps) - 1))
        # the bound is queried again, with the same deltas, after further calls of the same stream: the formula refers to the
        # CURRENT number of calls and variance, whatever was asked before (a memoised answer of an earlier state is a violation)
        for requery in range(3):
            if requery:
                for _ in range(chk.rng.randint(1, 2)):
                    rig.step()
                var = ex.variances
                chk.stat("bound_requeried_after_further_calls")
            prev = None
            if requery == 0:
                asked_at = [ex.seen_samples]
            if any(f not in var for f in rig.names):
                # before the first estimate no variance is tracked, so the formula of the property has nothing to refer to
                chk.stat("bound_skipped_no_variance_tracked_yet")
                continue
            for delta in (1e-3, 0.05, 0.5, 1.0):
                try:
                    cb = ex.get_confidence_bound(delta)
                except Exception as exn:
                    chk.violation("confidence-bound", f"{kind} {_expl.cfg_desc(cfg)}: get_confidence_bound({delta}) raised {core.err_kind(exn)}: {exn}",
                                  _expl.replay_payload(rig, cfg, len(rig.steps) - 1))
                    break
                a, t = float(alpha), ex.seen_samples
                chk.stat("bound_dynamic" if dyn else "bound_static")
                for f in rig.names:
                    v = float(var.get(f, 0)) if var else 0.0
                    want = (1 - a) ** t + math.sqrt(v * a / ((2 - a) * delta))
                    got = cb[f]
                    if not (math.isfinite(got) and got >= 0 and abs(got - want) <= 1e-9 * max(1.0, want)):
                        chk.violation("confidence-bound", f"{kind} alpha={rs(alpha)} t={t} variance={v} delta={delta}: bound {got}, formula gives {want}" + (f" (query round {requery + 1}: get_confidence_bound was asked with the deltas 0.001, 0.05, 0.5, 1.0 after call {asked_at[0]} already, then the stream went on to call {t})" if requery else ""),
                                      _expl.replay_payload(rig, cfg, len(rig.steps) - 1))
                    if (a < 1 or v > 0) and not got > 0:
                        chk.violation("confidence-bound", f"{kind} alpha={rs(alpha)} t={t} variance={v} delta={delta}: bound {got} is not positive",
                                      _expl.replay_payload(rig, cfg, len(rig.steps) - 1))
                    if prev is not None and got > prev[f] * (1 + 1e-12) + 1e-300:
                        chk.violation("confidence-bound", f"{kind}: bound increased from {prev[f]} to {got} when delta grew to {delta}",
                                      _expl.replay_payload(rig, cfg, len(rig.steps) - 1))
                    reqs.append({"op": "confbound_f", "alpha": bits(a), "variance": bits(v), "delta": bits(delta), "seen": t})
                    impls.append(("confbound", {"alpha": a, "seen": t, "variance": v, "delta": delta}, got))
                prev = cb
    if core.driver_available():
        try:
            answers = core.run_driver(reqs)
        except Exception as ex:
            chk.tie_failure("driver", f"model driver failed: {ex}")
            answers = []
        ndis = 0
        for ans, (kind, desc, impl) in zip(answers, impls):
            chk.stat("model_vs_impl_compared")
            if kind == "normalize":
                bad = core.jnorm(ans.get("out")) != core.jnorm(impl)
            else:
                m = unbits(ans["bound"]) if "bound" in ans else float("nan")
                bad = not (abs(m - impl) <= 1e-9 * max(1.0, abs(impl)))
            if bad and ndis < 5:
                ndis += 1
                chk.tie_failure(f"correspondence:{kind}", f"{desc}: impl={impl} model={ans}")
    else:
        chk.tie_failure("driver", "model driver not built")
    _cv.__exit__(None, None, None)
    cover.gate(chk, _cv, only_functions=['BaseIncrementalFeatureImportance._normalize_importance_values', 'BaseIncrementalFeatureImportance.get_confidence_bound', 'BaseIncrementalFeatureImportance.get_normalized_importance_values'])
    chk.exhaustive = False
    chk.extra["explanation"] = ("normalize_* and conf_bound_* are theorems about the model (ordered field; genuine square root); variance_nonneg holds "
                                "in every reachable state (C16a). Tied to base.py by exact comparison of normalisation and binary64 comparison of the "
                                "bound; finiteness for NumPy types by the type sweep.")
    return chk.finish()
