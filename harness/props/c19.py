"""C19 — TreeStorage reservoirs track current leaves; TreeImputer uses observed values.

Stage A: Props/C19.lean — bookkeeping theorems over an abstract tree ORACLE (river's Hoeffding trees are outside /repo):
         length, bounded reservoirs of complete observed points, newest point in the routed leaf, keys are leaves under the
         named hypothesis CleanupFires, imputer changes only the requested features and takes values from the routed leaf's
         reservoir (or the fall-back).
Stage B: the real TreeStorage / TreeImputer on mixed categorical / numeric streams with abrupt and recurring drift; the
         oracle answers (routed leaf id, all leaf ids) are RECORDED from the real trees and fed to the Lean model, whose
         reservoirs must equal the real ones after every update; the hypotheses (RoutedLeafIsLeaf, CleanupFires) and the
         property's clauses are monitored on the real objects after every update / imputation.
"""
import copy
import random as pyrandom
import warnings

from harness import core, explain, rng as hrng


def make_stream(rng, n):
    out = []
    for i in range(n):
        phase = (i * 4 // n) % 2            # recurring drift
        p = rng.gauss(0, 1)
        c = rng.choice([0, 1, 2]) if phase == 0 else rng.choice([0, 0, 1])
        q = (2 * p if c == 0 else -p) + (5.0 if phase == 1 else 0.0) + rng.gauss(0, 0.2)
        if i > n // 2:                      # abrupt drift
            q = -q
        out.append({"c": c, "p": p, "q": q})
    return out


def tree_case(chk, max_depth, gp, L, n, use_storage):
    import ixai.storage.tree_storage as ts
    from ixai.imputer import TreeImputer
    rng = chk.rng
    sd = rng.randrange(10 ** 6)
    feats = ["c", "p", "q"]
    desc = {"max_depth": max_depth, "grace_period": gp, "leaf_reservoir_length": L, "updates": n, "tree_seed": sd, "use_storage": use_storage}
    draws = hrng.Scripted(pyrandom.Random(rng.randrange(10 ** 9)), real_fn=lambda r: r.random())
    leaf_ids = explain.Ids()
    steps = []
    fail = None
    with warnings.catch_warnings():
        warnings.simplefilter("ignore")
        with draws.installed():
            st = ts.TreeStorage(cat_feature_names=["c"], num_feature_names=["p", "q"], max_depth=max_depth,
                                leaf_reservoir_length=L, grace_period=gp, seed=sd)
            cur = {"feature": None, "mode": "update", "oracle": [], "routed": {}}
            orig_path = ts.TreeStorage.get_path_through_tree

            def spy(node, x_i):
                leaf = orig_path(node, x_i)
                if cur["mode"] == "update":
                    cur["oracle"].append((cur["feature"], leaf, list(ts.get_all_tree_paths(node))))
                else:
                    cur["routed"][cur["feature"]] = leaf
                return leaf
            st.get_path_through_tree = spy
            orig_upd = st._update_data_reservoirs

            def upd(feature_name, x_i, x):
                cur["feature"] = feature_name
                return orig_upd(feature_name, x_i, x)
            st._update_data_reservoirs = upd
            stream = make_stream(rng, n)
            obs_index = {}
            leaf_changes = 0
            prev_leaves = {f: None for f in feats}
            for t, x in enumerate(stream):
                obs_index[id(x)] = t
                cur["oracle"] = []
                keys_before = {f: set(st.data_reservoirs[f].keys()) for f in feats}
                nlog = len(draws.log)
                try:
                    st.update(x)
                except Exception as ex:
                    fail = f"update {t + 1} raised {core.err_kind(ex)}: {ex}"
                    break
                idxs = [v for k, _, v in draws.log[nlog:] if k == "index"]
                steps.append({"x": t, "oracle": [[feats.index(f), leaf_ids.of(leaf), [leaf_ids.of(a) for a in allv]] for f, leaf, allv in cur["oracle"]],
                              "idxs": idxs})
                if len(st) != t + 1:
                    fail = f"after update {t + 1}: len(storage) = {len(st)}"
                    break
                for f, leaf, allv in cur["oracle"]:
                    if prev_leaves[f] is not None and set(prev_leaves[f]) != set(allv):
                        leaf_changes += 1
                    prev_leaves[f] = allv
                    if leaf not in allv:
                        chk.stat("hypothesis_RoutedLeafIsLeaf_failed")
                        fail = f"update {t + 1}, feature {f!r}: the routed leaf id is not among the ids enumerated for the tree (hypothesis RoutedLeafIsLeaf)"
                        break
                    stale_before = [k for k in keys_before[f] if k not in allv]
                    if stale_before and leaf in keys_before[f]:
                        chk.stat("hypothesis_CleanupFires_failed")
                    res = st.data_reservoirs[f]
                    current = set(ts.get_all_tree_paths(st._storage_x[f]._root))
                    stale = [k for k in res if k not in current]
                    if stale:
                        fail = (f"after update {t + 1}, feature {f!r}: {len(stale)} reservoir(s) kept for ids that are no longer leaves of the current tree "
                                f"(…{stale[0][-60:]})")
                        break
                    for k, r in res.items():
                        pts = r.get_data()[0]
                        if len(pts) > L:
                            fail = f"after update {t + 1}, feature {f!r}: a leaf reservoir holds {len(pts)} > {L} points"
                        elif any(id(p) not in obs_index or set(p.keys()) != set(feats) for p in pts):
                            fail = f"after update {t + 1}, feature {f!r}: a reservoir holds something that is not a complete, previously observed data point"
                    if leaf not in res or not any(p is x for p in res[leaf].get_data()[0]):
                        fail = f"after update {t + 1}, feature {f!r}: the newest observation is not in the reservoir of the leaf it is routed to"
                    if fail:
                        break
                if fail:
                    break
            chk.stat("leaf_set_changes", leaf_changes)
            impl_steps = []
            # the real reservoirs as (leaf id, observation indices) for the comparison — recomputed by replaying is not possible, so
            # the harness records them during the loop above only at the end of each update; do it in a second pass on a fresh storage
            # (cheap): here we only keep the final state and per-step lengths
            final = [[feats.index(f), sorted([[leaf_ids.of(k), [obs_index[id(p)] for p in r.get_data()[0]]] for k, r in st.data_reservoirs[f].items()])]
                     for f in feats]
            # ---- TreeImputer
            if fail is None:
                seen_inputs = []

                def model(z):
                    seen_inputs.append(dict(z))
                    return {"output": z["p"] + z["q"]}
                imp = TreeImputer(model, st, use_storage=use_storage)
                for rep in range(6):
                    x = dict(rng.choice(stream))
                    S = rng.sample(feats, rng.randint(1, 3))
                    nsmp = rng.randint(1, 3)
                    snap_x = copy.deepcopy(x)
                    snap_res = {f: {k: [id(p) for p in r.get_data()[0]] for k, r in st.data_reservoirs[f].items()} for f in feats}
                    seen_inputs.clear()
                    cur["mode"], cur["routed"] = "impute", {}
                    orig_sfs = imp._sample_from_storages

                    def sfs(feature_name, x_i, n_samples=1, orig_sfs=orig_sfs):
                        cur["feature"] = feature_name
                        return orig_sfs(feature_name, x_i, n_samples=n_samples)
                    imp._sample_from_storages = sfs
                    try:
                        preds = imp.impute(S, x, nsmp)
                    except Exception as ex:
                        fail = f"TreeImputer.impute({S}, n_samples={nsmp}) raised {core.err_kind(ex)}: {ex}"
                        break
                    chk.stat("imputations")
                    if len(preds) != nsmp or len(seen_inputs) != nsmp:
                        fail = f"TreeImputer returned {len(preds)} predictions / {len(seen_inputs)} model evaluations for n_samples={nsmp}"
                    if x != snap_x:
                        fail = "TreeImputer modified the instance"
                    if {f: {k: [id(p) for p in r.get_data()[0]] for k, r in st.data_reservoirs[f].items()} for f in feats} != snap_res:
                        fail = "TreeImputer modified the storage"
                    for z in seen_inputs:
                        for f in feats:
                            if f not in S and z[f] != x[f]:
                                fail = f"TreeImputer changed feature {f!r} which is not in the requested subset {S}"
                            if f in S and use_storage:
                                leaf = cur["routed"].get(f)
                                r = st.data_reservoirs[f].get(leaf)
                                if r is not None and not any(p[f] == z[f] for p in r.get_data()[0]):
                                    fail = (f"TreeImputer(use_storage=True): imputed value {z[f]!r} of feature {f!r} is not the value of that feature in any data "
                                            f"point held in the reservoir of the routed leaf")
                            if f == "c" and f in S and not use_storage and z[f] not in (0, 1, 2):
                                fail = f"TreeImputer: categorical value {z[f]!r} is not an observed class"
                    if fail:
                        break
    req = {"op": "tree_run", "L": L, "features": [0, 1, 2], "steps": [{"x": s["x"], "oracle": s["oracle"]} for s in steps],
           "idxs": [i for s in steps for i in s["idxs"]]}
    return desc, fail, req, {"len": len(steps), "final": final}


def run(tier="quick", seed=0, replay=None):
    chk = core.Check("C19", tier, seed, "proof")
    chk.rule = ("streams of 120 (quick) / 1500 (thorough) mixed categorical/numeric observations with recurring and abrupt drift; max_depth in 1..4, "
                "grace_period in {5,10,25}, leaf_reservoir_length in 1..4, explicit tree seed; 6 imputations per run with use_storage True/False. "
                "Non-trivial: the leaf set of some tree changed during the run; distinct by hash.")
    chk.trusted = ["Lean 4.33.0 kernel", "axioms propext/Classical.choice/Quot.sound",
                   "river's HoeffdingAdaptiveTree learners (learn_one, routing, leaf enumeration): an ORACLE recorded from the real trees — not modelled, not proved",
                   "hypotheses RoutedLeafIsLeaf and CleanupFires are monitored on the real trees, not proved"]
    chk.assumptions = ["C19 is partial: bookkeeping proved over the oracle; `keys are leaves` needs CleanupFires (stale_key_remains_example shows why)"]
    if replay:
        print(open(replay).read())
        return 1
    core.lean_stage(chk, "C19")
    core.soft_bridge(chk, props=("GenTree", "GenTreeImputer"))
    from harness import cover
    from harness import fingerprint
    fingerprint.direct(chk, ['ixai/storage/tree_storage.py', 'ixai/imputer/tree_imputer.py'])
    _cv = cover.Cover(['ixai/storage/tree_storage.py', 'ixai/imputer/tree_imputer.py'])
    _cv.__enter__()
    quick = tier == "quick"
    reqs, impls = [], []
    for i in range(min(chk.count(8, 40), 120)):      # each case drives real river trees through hundreds of updates
        md, gp, L = chk.rng.randint(1, 4), chk.rng.choice([5, 10, 25]), chk.rng.randint(1, 4)
        n = chk.count(120, 1500)
        before = chk.stats.get("leaf_set_changes", 0)
        desc, fail, req, impl = tree_case(chk, md, gp, L, n, use_storage=(i % 3 != 2))
        changed = chk.stats.get("leaf_set_changes", 0) - before
        chk.case(dict(desc, leaf_set_changes=changed), nontrivial=changed > 0)
        if fail:
            chk.violation("tree", f"TreeStorage/TreeImputer {desc}: {fail}", desc)
        else:
            reqs.append(req)
            impls.append((desc, impl))
    if core.driver_available():
        try:
            answers = core.run_driver(reqs)
        except Exception as ex:
            chk.tie_failure("driver", f"model driver failed: {ex}")
            answers = []
        ndis = 0
        for ans, (desc, impl) in zip(answers, impls):
            chk.stat("model_vs_impl_compared")
            if "error" in ans:
                chk.tie_failure("driver", ans["error"])
                continue
            last = ans["steps"][-1] if ans["steps"] else None
            model_final = core.jnorm([[f, sorted(rs_)] for f, rs_ in last["reservoirs"]]) if last else None
            if last is None or core.jnorm(last["len"]) != str(impl["len"]) or model_final != core.jnorm(impl["final"]):
                if ndis < 5:
                    ndis += 1
                    chk.tie_failure("correspondence:TreeStorage", f"{desc}: impl final={str(impl['final'])[:300]} model={str(model_final)[:300]}")
    else:
        chk.tie_failure("driver", "model driver not built")
    _cv.__exit__(None, None, None)
    cover.gate(chk, _cv, only_functions=['TreeStorage', 'TreeImputer', 'get_all_tree_paths', 'walk_through_tree'])
    chk.exhaustive = False
    chk.extra["explanation"] = ("Bookkeeping theorems over an abstract tree oracle; the oracle answers are recorded from river's real trees and the model's reservoirs "
                                "must equal the real ones; hypotheses and property clauses are monitored after every update and imputation.")
    return chk.finish()
