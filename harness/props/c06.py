"""C06 — imputers replace exactly the requested features with genuine background values.

Stage A: Props/C06.lean (overlay outside/inside for joint, product, default; n predictions; empty subset; meanOutput of
         replicated outputs = output, i.e. faithfulness on the empty subset used by C01/C05).
Stage B: the real MarginalImputer / DefaultImputer against the Lean model (same instance, rows, subset, n, row choices);
         the property evaluated directly on the inputs the real model function received; deep snapshots of instance,
         subset and storage before/after.
"""
import collections
import copy
import random as pyrandom
import warnings

from harness import core, rng as hrng
from harness.q import Q, rs

NAMES = ["a", 1, 2.5, "d"]


def build_storage(kind, rows):
    from ixai.storage import BatchStorage, IntervalStorage, GeometricReservoirStorage, UniformReservoirStorage, SequenceStorage
    if kind == "batch":
        st = BatchStorage(store_targets=True)
    elif kind == "interval":
        st = IntervalStorage(size=len(rows), store_targets=True)
    elif kind == "geom":
        st = GeometricReservoirStorage(size=len(rows), store_targets=False)
    elif kind == "uniform":
        st = UniformReservoirStorage(size=len(rows), store_targets=False)
    else:
        st = SequenceStorage(store_targets=False)
        rows = rows[-1:]
    for i, r in enumerate(rows):
        st.update(dict(r), i)
    return st


def run_case(chk, strategy, storage_kind, d, m, n, subset_kind):
    from ixai.imputer import MarginalImputer, DefaultImputer
    rng = chk.rng
    names = NAMES[:d]
    # globally unique values per (row, feature): the source row of every imputed value can be read off
    rows = [{f: Q(100 * (r + 1) + 10 * i + 1, 7) for i, f in enumerate(names)} for r in range(m)]
    if rng.random() < 0.5:
        # a stored observation may hold a falsy value (0, 0.0, False): it is a genuine background value like any other
        rows[rng.randrange(m)][names[rng.randrange(d)]] = rng.choice([0, 0.0, False, Q(0)])
    x = {f: Q(-(10 * i + 3), 5) for i, f in enumerate(names)}
    x["extra"] = Q(77)
    k = rng.randint(0, d)
    S = rng.sample(names, k)
    if subset_kind == "empty":
        S = []
    elif subset_kind == "full":
        S = list(names)
    subset = {"list": list(S), "set": set(S), "tuple": tuple(S), "empty": [], "full": list(S)}[subset_kind]
    seen_inputs = []

    def model(z):
        seen_inputs.append(dict(z))
        return {"output": sum((v for kk, v in z.items() if kk != "extra"), Q(0)), "second": z[names[0]]}
    with warnings.catch_warnings():
        warnings.simplefilter("ignore")
        draws = hrng.Scripted(pyrandom.Random(rng.randrange(10 ** 9)), real_fn=lambda r: r.random())
        with draws.installed():
            st = build_storage(storage_kind, rows)
            if storage_kind == "sequence":
                rows = rows[-1:]
            values = {f: Q(1000 + i) for i, f in enumerate(names)}
            values[names[rng.randrange(d)]] = rng.choice([0, 0.0, False, Q(0)])   # falsy defaults are legitimate values
            # the strategy name as a run-time built string (equal to, but not the same object as, the literal in the library)
            imp = MarginalImputer(model, "".join(list(strategy)), st) if strategy != "default" else DefaultImputer(model, dict(values))
            snap = (copy.deepcopy(x), copy.deepcopy(subset), copy.deepcopy(list(st.get_data()[0])), copy.deepcopy(list(st.get_data()[1])))
            nlog = len(draws.log)
            try:
                preds = imp.impute(subset, x, n)
                err = None
            except Exception as ex:
                preds, err = None, f"{core.err_kind(ex)}: {ex}"
            drawn = [(rg, v) for kd, rg, v in draws.log[nlog:] if kd == "index"]
    desc = {"strategy": strategy, "storage": storage_kind, "d": d, "rows": m if storage_kind != "sequence" else 1, "n": n,
            "subset": [core.canon_key(f) for f in S], "subset_type": subset_kind}
    if err:
        return desc, f"impute raised {err}", None
    after = (x, subset, list(st.get_data()[0]), list(st.get_data()[1]))
    if after[0] != snap[0] or list(after[0].keys()) != list(snap[0].keys()):
        return desc, "the instance was modified", None
    if after[1] != snap[1]:
        return desc, "the subset was modified", None
    if after[2] != snap[2] or after[3] != snap[3]:
        return desc, "the storage was modified", None
    if len(preds) != n:
        return desc, f"returned {len(preds)} predictions for n_samples={n}", None
    want_calls = 1 if strategy == "default" else n
    if len(seen_inputs) != want_calls:
        return desc, f"{len(seen_inputs)} model evaluations for n_samples={n}", None
    mrows = len(rows)
    choices = []
    for z in seen_inputs:
        if set(z.keys()) != set(x.keys()):
            return desc, f"model input has keys {list(z.keys())}", None
        for f in x:
            if f not in S and z[f] != x[f]:
                return desc, f"feature {f!r} outside the subset was changed from {x[f]} to {z[f]}", None
        if strategy == "default":
            for f in S:
                if not (z[f] == values[f]):
                    return desc, f"feature {f!r} got {z[f]!r} instead of the configured default {values[f]!r}", None
            continue
        src = {}
        for f in S:
            rr = [r for r in range(mrows) if rows[r][f] == z[f]]
            if not rr:
                return desc, f"imputed value {z[f]} of feature {f!r} is not the value of that feature in any stored observation", None
            src[f] = rr[0]
        if strategy == "joint":
            if len(set(src.values())) > 1:
                return desc, f"joint strategy mixed stored observations {src}", None
            choices.append(list(src.values())[0] if src else None)
        else:
            choices.append([src[f] for f in S])
    if strategy != "default":
        if any(rg != mrows for rg, _ in drawn):
            return desc, f"row index drawn from range {sorted(set(rg for rg, _ in drawn))} with {mrows} stored observations", None
    phase1_inputs = [dict(z) for z in seen_inputs]
    phase1_rows = [dict(r) for r in rows]
    history = [dict(r) for r in rows]
    # ---- phase 2 (multi-step): the storage keeps changing between imputations; every imputed value must come from an observation
    #      that is stored NOW (not from a snapshot taken earlier)
    if strategy != "default":
        with warnings.catch_warnings():
            warnings.simplefilter("ignore")
            with draws.installed():
                for rnd in range(2):
                    new_rows = [{f: Q(100000 * (rnd + 1) + 100 * (r + 1) + 10 * i + 3, 11) for i, f in enumerate(names)} for r in range(mrows)]
                    for i, r in enumerate(new_rows):
                        st.update(dict(r), 500 + i)
                    history += [dict(r) for r in new_rows]
                    current = [dict(r) for r in st.get_data()[0]]
                    # what window storages hold is determined by the update history, independently of what get_data() reports
                    if storage_kind == "interval":
                        current = history[-mrows:]
                    elif storage_kind == "sequence":
                        current = history[-1:]
                    elif storage_kind == "batch":
                        current = list(history)
                    seen_inputs.clear()
                    S2 = list(names) if not S else list(S)
                    try:
                        imp.impute({"list": list(S2), "set": set(S2), "tuple": tuple(S2), "empty": list(S2), "full": list(S2)}[subset_kind], x, n)
                    except Exception as ex:
                        return desc, f"second imputation after storage updates raised {core.err_kind(ex)}: {ex}", None
                    for z in seen_inputs:
                        per_f = {f: [r for r in range(len(current)) if current[r][f] == z[f]] for f in S2}
                        if any(not v for v in per_f.values()):
                            f = [f for f, v in per_f.items() if not v][0]
                            return desc, (f"after {(rnd + 1) * mrows} further storage updates: imputed value {z[f]} of feature {f!r} is not the value of that "
                                          f"feature in any CURRENTLY stored observation (stale background)"), None
                        if strategy == "joint" and len(set.intersection(*[set(v) for v in per_f.values()])) == 0:
                            return desc, "after further storage updates: joint strategy mixed stored observations", None
    # ---- the caller reuses ONE mutable subset object and shrinks it in place between calls (IncrementalSage does exactly this)
    if len(names) >= 2:
        for container in (set, list):
            sub = container(names)
            with warnings.catch_warnings():
                warnings.simplefilter("ignore")
                with draws.installed():
                    while True:
                        seen_inputs.clear()
                        try:
                            imp.impute(sub, x, 1)
                        except Exception as ex:
                            return desc, f"impute with a reused {container.__name__} subset raised {core.err_kind(ex)}: {ex}", None
                        for z in seen_inputs:
                            for f in names:
                                if f not in sub and z[f] != x[f]:
                                    return desc, (f"second call with the same {container.__name__} object shrunk in place to {sorted(map(str, sub))}: feature {f!r} "
                                                  f"outside the subset was replaced ({x[f]} -> {z[f]})"), None
                                if f in sub and strategy == "default" and not (z[f] == values[f]):
                                    return desc, f"reused subset object: feature {f!r} inside the subset kept {z[f]!r} instead of the default", None
                        if not sub:
                            break
                        if container is set:
                            sub.remove(sorted(sub, key=str)[0])
                        else:
                            sub.pop()
    # ---- sparse instance (a requested feature is missing from the instance) and a model that raises: never modify the instance
    if S:
        outside = [f for f in names if f not in S]
        drop = {S[0]} | ({outside[-1]} if outside and rng.random() < 0.6 and outside[-1] != names[0] else set())
        xs = {k: v for k, v in x.items() if k not in drop}     # lacks a requested feature and possibly one that is not requested
        snap = copy.deepcopy(xs)
        del seen_inputs[:]
        sparse_err = None
        try:
            with warnings.catch_warnings():
                warnings.simplefilter("ignore")
                with draws.installed():
                    imp.impute(list(S), xs, n)
        except Exception as ex:
            sparse_err = f"{core.err_kind(ex)}: {ex}"
        if xs != snap or list(xs.keys()) != list(snap.keys()):
            return desc, f"the instance was modified by impute (instance without feature {S[0]!r}: {sorted(map(str, snap))} became {sorted(map(str, xs))})", None
        # the model inputs for a sparse (river-style) instance: every requested feature is there, taken from the background
        # (stored now / configured default), everything else is as in the instance
        if sparse_err:
            return desc, f"impute raised {sparse_err} for an instance without the requested feature {S[0]!r}", None
        stored_now = [dict(r) for r in st.get_data()[0]] if strategy != "default" else []
        for z in seen_inputs:
            if set(z.keys()) != set(xs.keys()) | set(S):
                return desc, (f"instance without the requested feature {S[0]!r}: the model input has keys {sorted(map(str, z.keys()))}, expected "
                              f"{sorted(map(str, set(xs.keys()) | set(S)))}"), None
            for f in xs:
                if f not in S and z[f] != xs[f]:
                    return desc, f"sparse instance: feature {f!r} outside the subset was changed from {xs[f]} to {z[f]}", None
            for f in S:
                if strategy == "default":
                    if not (z[f] == values[f]):
                        return desc, f"sparse instance: feature {f!r} got {z[f]!r} instead of the configured default {values[f]!r}", None
                elif not any(f in r and r[f] == z[f] for r in stored_now):
                    return desc, f"sparse instance: imputed value {z[f]} of feature {f!r} is not the value of that feature in any stored observation", None

        boom = {"n": 0}
        orig_fn = imp.model_function

        def raising(z):
            boom["n"] += 1
            raise RuntimeError("model failure")
        imp.model_function = raising
        snap = copy.deepcopy(x)
        try:
            with draws.installed():
                imp.impute(list(S), x, n)
        except RuntimeError:
            pass
        except Exception:
            pass
        imp.model_function = orig_fn
        if x != snap or list(x.keys()) != list(snap.keys()):
            return desc, "the instance was left modified after the model function raised during impute", None
    if not S:
        base = {"output": sum((v for kk, v in x.items() if kk != "extra"), Q(0)), "second": x[names[0]]}
        if any(p != base for p in preds):
            return desc, "empty subset did not return the unperturbed prediction", None
    # model request
    idx = {core.canon_key(f): i for i, f in enumerate(names)}
    req = {"op": "impute_inputs", "strategy": strategy, "d": d, "x": [rs(x[f]) for f in names],
           "S": [idx[core.canon_key(f)] for f in S], "n": n, "rows": [[rs(r[f]) for f in names] for r in phase1_rows]}
    if strategy == "joint":
        req["choices"] = [c if c is not None else (drawn[j][1] if j < len(drawn) else 0) for j, c in enumerate(choices)]
    elif strategy == "product":
        req["choices"] = choices
    else:
        req["values"] = [rs(Q(values[f])) for f in names]
    impl_inputs = [[rs(z[f]) for f in names] for z in (phase1_inputs if strategy != "default" else phase1_inputs * n)]
    return desc, None, (req, impl_inputs)


def run(tier="quick", seed=0, replay=None):
    chk = core.Check("C06", tier, seed, "proof")
    chk.rule = ("(strategy in joint/product/default) x (storage in batch/interval/geom/uniform/sequence, list- and deque-backed) x "
                "d in 1..4 x stored rows 1..4 x n in 1..3 x subset given as list/set/tuple/empty/full; stored values unique per "
                "(row, feature) so the source row of every imputed value is observable; each case also with a SPARSE instance (a requested feature missing from the instance): the model inputs must contain it, from the background. Non-trivial: non-empty subset; distinct by hash.")
    chk.trusted = ["Lean 4.33.0 kernel", "axioms propext/Classical.choice/Quot.sound",
                   "hand-written model Model/Imputer.lean tied by this correspondence", "driver JSON glue; harness.q.Q"]
    chk.assumptions = ["non-modification of instance/subset/storage is established by the correspondence run only (pure model)",
                       "the storage is non-empty when an imputation is requested"]
    if replay:
        print(open(replay).read())
        return 1
    core.lean_stage(chk, "C06")
    core.soft_bridge(chk, props=("GenImputer", "GenImputerCorollaries"))
    from harness import cover
    from harness import fingerprint
    fingerprint.direct(chk, ['ixai/imputer/marginal_imputer.py', 'ixai/imputer/default_imputer.py', 'ixai/imputer/base.py'])
    _cv = cover.Cover(['ixai/imputer/marginal_imputer.py', 'ixai/imputer/default_imputer.py', 'ixai/imputer/base.py'])
    _cv.__enter__()
    quick = tier == "quick"
    cases = []
    for strategy in ("joint", "product", "default"):
        for storage_kind in ("batch", "interval", "geom", "uniform", "sequence"):
            for subset_kind in ("list", "set", "tuple", "empty", "full"):
                for rep in range(chk.count(2, 12)):
                    cases.append((strategy, storage_kind, chk.rng.randint(1, 4), chk.rng.randint(1, 4), chk.rng.randint(1, 3), subset_kind))
    reqs, impls = [], []
    for c in cases:
        desc, fail, tie = run_case(chk, *c)
        chk.case(desc, nontrivial=bool(desc["subset"]))
        chk.stat(f"strategy:{c[0]}")
        chk.stat(f"subset:{c[5]}")
        if fail:
            chk.violation(f"{c[0]}", f"{c[0]} imputer over {c[1]} storage, subset {desc['subset']} ({c[5]}), n={c[4]}: {fail}", desc)
        elif tie:
            reqs.append(tie[0])
            impls.append((desc, tie[1]))
    if core.driver_available():
        try:
            answers = core.run_driver(reqs)
        except Exception as ex:
            chk.tie_failure("driver", f"model driver failed: {ex}")
            answers = []
        ndis = 0
        for ans, (desc, impl_inputs) in zip(answers, impls):
            chk.stat("model_vs_impl_compared")
            if ans.get("inputs") != impl_inputs and ndis < 5:
                ndis += 1
                chk.tie_failure("correspondence:imputer", f"{desc}: impl inputs {impl_inputs} model {ans}")
    else:
        chk.tie_failure("driver", "model driver not built")
    _cv.__exit__(None, None, None)
    cover.gate(chk, _cv, only_functions=['MarginalImputer', 'DefaultImputer', 'BaseImputer'])
    chk.exhaustive = False
    chk.extra["explanation"] = ("Theorems about Model/Imputer.lean for every instance, subset, rows, n and row choice; the real imputers "
                                "are run with recording model functions and compared input by input; snapshots establish non-modification.")
    return chk.finish()
