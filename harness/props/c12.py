"""C12 — MultiValueTracker.

Stage A: Props/C12.lean (per-key base statistic with zero fill, keys monotone, N, normalised view).
Stage B: real MultiValueTracker in exact arithmetic vs the Lean model on update-dict histories with changing key
         sets; property oracle evaluated directly on the real class: per-key value against an independent tracker fed
         the zero-filled series, keys never dropped, N, normalised view (sum one / ratios / zero sum / single key); and a
         numeric-type sweep (int, float, Fraction-like, np.float64, np.float32, np.int64) for the zero-sum clause
         ("all zeros rather than NaN").
"""
import copy
import math

from harness import core
from harness.q import Q, rs
from harness.explain import Ids

KEYSETS = [["a", "b", "c", "d"], [0, 1, 2, 3], [0.5, 1.5, "x", 7], [("t", 1), "output", 3, 2.5]]


def make(base_kind, alpha):
    from ixai.utils.tracker import MultiValueTracker, WelfordTracker, ExponentialSmoothingTracker
    base = WelfordTracker() if base_kind == "welford" else ExponentialSmoothingTracker(alpha)
    return MultiValueTracker(base), (WelfordTracker if base_kind == "welford" else (lambda: ExponentialSmoothingTracker(alpha)))


def near_one_fails():
    """the normalised view divides by the sum whenever it is not zero — also when the sum is within 1e-12 of one"""
    from ixai.utils.tracker import MultiValueTracker, ExponentialSmoothingTracker
    mv = MultiValueTracker(ExponentialSmoothingTracker(Q(1)))
    mv.update({"a": Q(1, 2), "b": Q(1, 2) + Q(1, 10 ** 12)})
    norm = mv.get_normalized()
    if sum(norm.values(), Q(0)) != 1:
        return f"values {mv.get()} (sum 1 + 1e-12): normalised view sums to {sum(norm.values(), Q(0))}"
    return None


def gen_history(rng, keys, n):
    hist = []
    pool = list(keys)
    for t in range(n):
        m = rng.randint(0, len(pool))
        ks = rng.sample(pool, m)
        style = rng.random()
        if style < 0.1:
            vals = {k: Q(0) for k in ks}
        elif style < 0.2 and len(ks) >= 2:
            vals = {k: Q(rng.randint(-3, 3)) for k in ks}
            vals[ks[0]] = -sum((v for k, v in vals.items() if k != ks[0]), Q(0))  # zero sum
        else:
            vals = {k: Q(rng.randint(-5, 5), rng.randint(1, 3)) for k in ks}
        hist.append(vals)
    return hist


def oracle(mv, fresh, hist):
    """C12 evaluated on the real class; returns failure text or None"""
    ref = {}
    seen_keys = []
    for t, u in enumerate(hist):
        keys_before = set(mv.get().keys())
        mv.update(dict(u))
        for k in u:
            if k not in ref:
                ref[k] = fresh()
                seen_keys.append(k)
        for k in ref:
            ref[k].update(u.get(k, 0))
        got = mv.get()
        if not keys_before <= set(got.keys()):
            return f"after update {t + 1}: keys dropped {keys_before - set(got.keys())}"
        if set(got.keys()) != set(ref.keys()):
            return f"after update {t + 1}: keys {sorted(map(str, got.keys()))} expected {sorted(map(str, ref.keys()))}"
        for k in ref:
            if got[k] != ref[k].get():
                return (f"after update {t + 1}: value of key {k!r} is {got[k]} but an independent copy of the base tracker fed its "
                        f"zero-filled series reports {ref[k].get()}")
        if mv.N != t + 1:
            return f"after update {t + 1}: N = {mv.N}"
        norm = mv.get_normalized()
        if set(norm.keys()) != set(got.keys()):
            return f"after update {t + 1}: normalised keys differ"
        total = sum(got.values(), Q(0))
        if len(got) <= 1:
            if norm != got:
                return f"after update {t + 1}: <= 1 key but normalised {norm} != raw {got}"
        elif total == 0:
            if any(v != 0 for v in norm.values()):
                return f"after update {t + 1}: zero sum but normalised view is {norm}"
        else:
            if sum(norm.values(), Q(0)) != 1:
                return f"after update {t + 1}: normalised values sum to {sum(norm.values(), Q(0))}"
            for k in got:
                if norm[k] * total != got[k]:
                    return f"after update {t + 1}: ratio not preserved for key {k!r}"
    return None


class ListTracker:
    """a base tracker with MUTABLE internal state (keeps its values in a list): per-key copies must not share it"""

    def __init__(self):
        self.values = []
        self.tracked_value = 0
        self.N = 0

    def update(self, v):
        self.values.append(v)
        self.N += 1
        self.tracked_value = sum(self.values, Q(0)) / len(self.values)
        return self

    def get(self):
        return self.tracked_value

    def __call__(self):
        return self.tracked_value


def mutable_base_fails(rng):
    """independence of the per-key copies for base trackers with in-place mutable state"""
    from ixai.utils.tracker import MultiValueTracker, SlidingWindowTracker
    for label, mk in (("SlidingWindowTracker(2)", lambda: SlidingWindowTracker(2)), ("SlidingWindowTracker(3)", lambda: SlidingWindowTracker(3)),
                      ("list-based tracker", ListTracker)):
        mv = MultiValueTracker(mk())
        ref = {}
        hist = [{"a": 3.0}, {"a": 1.0, "b": 200.0}, {"b": 100.0, "c": -7.0}, {"a": 5.0, "c": 2.0}, {"a": 2.0, "b": 4.0, "c": 6.0}]
        for t, u in enumerate(hist):
            mv.update(dict(u))
            for k in u:
                if k not in ref:
                    ref[k] = mk()
            for k in ref:
                ref[k].update(u.get(k, 0))
            got = mv.get()
            for k in ref:
                a, b = float(got[k]), float(ref[k].get())
                if abs(a - b) > 1e-9 * max(1.0, abs(b)):
                    return f"MultiValueTracker({label}) after update {t + 1} of {hist}: key {k!r} reports {a}, an independent copy fed its zero-filled series reports {b}"
    return None


def type_sweep_fails():
    """zero-sum fallback for every numeric type: never NaN/inf"""
    import numpy as np
    from ixai.utils.tracker import MultiValueTracker, WelfordTracker, ExponentialSmoothingTracker
    out = []
    for name, conv in [("int", int), ("float", float), ("np.float64", np.float64), ("np.float32", np.float32),
                       ("np.int64", np.int64), ("Q", Q)]:
        for base in (WelfordTracker(), ExponentialSmoothingTracker(1)):
            for vals in ({"a": 1, "b": -1}, {"a": 0, "b": 0}, {"a": 2, "b": -1, "c": -1}):
                mv = MultiValueTracker(base)
                try:
                    with np.errstate(all="ignore"):
                        mv.update({k: conv(v) for k, v in vals.items()})
                        norm = mv.get_normalized()
                except Exception as ex:
                    out.append((name, type(base).__name__, vals, f"raised {core.err_kind(ex)}"))
                    continue
                bad = [k for k, v in norm.items() if not (float(v) == 0.0)]
                if bad:
                    out.append((name, type(base).__name__, vals, {k: repr(v) for k, v in norm.items()}))
    return out


def narrow_dtype_fails(rng):
    """per-key statistics of NumPy scalars of narrow and unsigned dtypes (values of any real numeric type): each key reports the
    statistic of its zero-filled series of NUMBERS, whatever their dtype (no wrap-around in the type of an earlier value)"""
    import numpy as np
    from ixai.utils.tracker import MultiValueTracker, WelfordTracker, ExponentialSmoothingTracker
    for name, conv in (("np.uint8", np.uint8), ("np.uint16", np.uint16), ("np.int8", np.int8)):
        for rep in range(6):
            keys = ["a", "b", "c"]
            hist = []
            for t in range(rng.randint(2, 5)):
                ks = [k for k in keys if rng.random() < 0.7] or ["a"]
                hist.append({k: rng.randint(0, 120) for k in ks})
            if rep == 0:
                hist = [{"a": 120, "b": 7}, {"a": 10}, {"a": 3, "c": 100}, {"c": 1}]   # large first value, smaller later ones, omitted keys
            for label, mk in (("welford", lambda: WelfordTracker()), ("es, alpha=1/2", lambda: ExponentialSmoothingTracker(0.5))):
                mv = MultiValueTracker(mk())
                series = {}
                try:
                    with np.errstate(all="ignore"):
                        for upd in hist:
                            mv.update({k: conv(v) for k, v in upd.items()})
                            for k in upd:
                                series.setdefault(k, [])
                            for k in series:
                                series[k].append(upd.get(k, 0))
                        got = {k: float(v) for k, v in mv.get().items()}
                except Exception as ex:
                    return name, label, hist, f"raised {core.err_kind(ex)}: {ex}"
                for k, vs in series.items():
                    n = len(vs)
                    want = sum(vs) / n if label == "welford" else sum(0.5 * 0.5 ** (n - 1 - i) * v for i, v in enumerate(vs))
                    if k not in got or not abs(got[k] - want) <= 1e-9 * max(1.0, abs(want)):
                        return name, label, hist, f"key {k!r} reports {got.get(k)} but its zero-filled series {vs} has {want}"
    return None


def run(tier="quick", seed=0, replay=None):
    chk = core.Check("C12", tier, seed, "proof")
    chk.rule = ("update-dict histories of length 1..8 over 4 key sets (str, int, float/mixed, tuple/mixed) with random subsets per "
                "update (late keys, omitted keys, empty updates, all-zero and zero-sum updates), both base kinds, alpha in "
                "{1, 1/2, 1/3}; numeric-type sweep for the zero-sum clause. Non-trivial: >= 2 updates; distinct by hash.")
    chk.trusted = ["Lean 4.33.0 kernel", "axioms propext/Classical.choice/Quot.sound",
                   "hand-written model Model/Tr.lean (MV) tied by this correspondence; base trackers by translation",
                   "copy.deepcopy copies trackers faithfully; dict keys are hashable and distinct"]
    chk.assumptions = ["values are field elements; NaN/inf clause only by the type sweep (a field has no NaN)"]
    if replay:
        print(open(replay).read())
        return 1
    core.lean_stage(chk, "C12")
    core.soft_bridge(chk, props=("GenMV", "GenMVCorollaries"))
    from harness import cover
    from harness import fingerprint
    fingerprint.direct(chk, ['ixai/utils/tracker/multi_value.py'])
    _cv = cover.Cover(['ixai/utils/tracker/multi_value.py'])
    _cv.__enter__()
    quick = tier == "quick"
    reqs, impls = [], []
    for i in range(chk.count(150, 2000)):
        keys = chk.rng.choice(KEYSETS)
        base_kind = chk.rng.choice(["welford", "es"])
        alpha = chk.rng.choice([Q(1), Q(1, 2), Q(1, 3)])
        n = chk.rng.randint(1, 8)
        hist = gen_history(chk.rng, keys, n)
        desc = {"base": base_kind, "alpha": rs(alpha) if base_kind == "es" else None,
                "updates": [{core.canon_key(k): rs(v) for k, v in u.items()} for u in hist]}
        chk.case(desc, nontrivial=n >= 2)
        chk.stat(f"base:{base_kind}")
        mv, fresh = make(base_kind, alpha)
        try:
            f = oracle(mv, fresh, hist)
        except Exception as ex:
            f = f"raised {core.err_kind(ex)}: {ex}"
        if f:
            chk.violation("multivalue", f"MultiValueTracker({base_kind}{', alpha=' + rs(alpha) if base_kind == 'es' else ''}): {f}", desc)
        # model comparison
        ids = Ids()
        mv2, _ = make(base_kind, alpha)
        steps = []
        try:
            for u in hist:
                mv2.update(dict(u))
                g = sorted([[ids.of(k), rs(v)] for k, v in mv2.get().items()])
                nn = sorted([[ids.of(k), rs(v)] for k, v in mv2.get_normalized().items()])
                steps.append({"get": g, "norm": nn, "N": mv2.N})
        except Exception as ex:
            steps.append({"error": core.err_kind(ex)})
        ups = [[[ids.of(k), rs(v)] for k, v in u.items()] for u in hist]
        # ids must be assigned in update order for the request: recompute with the final numbering
        reqs.append({"op": "mv", "alpha": rs(alpha) if base_kind == "es" else None, "updates": ups})
        impls.append((desc, steps))
    if core.driver_available():
        try:
            answers = core.run_driver(reqs)
        except Exception as ex:
            chk.tie_failure("driver", f"model driver failed: {ex}")
            answers = []
        ndis = 0
        for ans, (desc, steps) in zip(answers, impls):
            chk.stat("model_vs_impl_compared")
            model = core.jnorm(ans.get("steps")) if "error" not in ans else ans
            if core.jnorm(steps) != model and ndis < 5:
                ndis += 1
                chk.tie_failure("correspondence:MultiValueTracker", f"{desc}: impl={str(core.jnorm(steps))[:400]} model={str(model)[:400]}")
    else:
        chk.tie_failure("driver", "model driver not built")
    f = near_one_fails()
    if f:
        chk.violation("near-one-sum", f"MultiValueTracker: {f}", {"near_one": True})
    chk.case({"mutable_base_trackers": ["SlidingWindowTracker(2)", "SlidingWindowTracker(3)", "list-based"]}, nontrivial=True, sample=False)
    try:
        f = mutable_base_fails(chk.rng)
    except Exception as ex:
        f = f"MultiValueTracker over a base tracker with mutable state raised {core.err_kind(ex)}: {ex}"
    if f:
        chk.violation("shared-base-state", f, {"base": "mutable"})
    for name, base, vals, norm in type_sweep_fails()[:3]:
        chk.violation("zero-sum:" + name, f"MultiValueTracker({base}) with {name} values {vals}: normalised view is {norm}, not all zeros",
                      {"type": name, "base": base, "values": vals})
    chk.stat("type_sweep_cases", 36)
    nd = narrow_dtype_fails(chk.rng)
    if nd:
        chk.violation("narrow-dtype:" + nd[0], f"MultiValueTracker({nd[1]}) with {nd[0]} values, updates {nd[2]}: {nd[3]}",
                      {"type": nd[0], "base": nd[1], "updates": nd[2]})
    chk.stat("narrow_dtype_histories", 36)
    _cv.__exit__(None, None, None)
    cover.gate(chk, _cv, only_functions=['MultiValueTracker'])
    chk.exhaustive = False
    chk.extra["explanation"] = ("Theorems about the MV model for every update history and both base kinds; model tied to multi_value.py by "
                                "exact-arithmetic runs on histories with changing key sets; property oracle and numeric-type sweep on "
                                "the real class.")
    return chk.finish()
