"""C02 — incremental PFI is the running statistic of (mean imputed loss - original loss).

Stage A: Props/C02.lean (`pfi_refines_spec`, closed forms, first call only seeds, ignored feature has importance 0).
Stage B: real IncrementalPFI in exact arithmetic vs the Lean spec evaluated by the driver on the recorded callbacks
         (importance values and variances after every call), plus direct oracles: first call leaves the estimates
         empty; a feature the model ignores has importance exactly 0.
"""
from harness import core, explain
from harness.q import Q, rs
from harness.props import _expl


def sparse_stream_fails(rng, dynamic, d, n_inner, T, storage_kind, imputer_kind):
    """River-style SPARSE observations: an explained observation may omit a feature the model reads with `.get(f, 0)`. Independent
    reference, written from the statement: for every feature the n inner predictions are made on the observation with ONLY that
    feature replaced by a background value (checked on the inputs the model actually received), the contribution is their mean loss
    minus the loss of the unperturbed prediction, and importance / variance are the configured running statistic of the
    contributions / of the squared deviations from the updated estimate."""
    import random as pyrandom
    import warnings
    from harness import rng as hrng
    from ixai.explainer import IncrementalPFI
    from ixai.storage import GeometricReservoirStorage, IntervalStorage
    from ixai.imputer import MarginalImputer, DefaultImputer
    names = ["a", 1, 2.5, "d"][:d]
    coef = {f: Q(rng.randint(-3, 3) or 2) for f in names}
    inputs = []

    def pure_model(z):
        return {"output": sum((coef[f] * z.get(f, Q(0)) for f in names), Q(1, 2))}

    def model(z):
        inputs.append(dict(z))
        return pure_model(z)

    def loss(y, p):
        return (p["output"] - y) * (p["output"] - y)
    alpha = Q(1, 3)
    defaults = {f: Q(7 + i, 2) for i, f in enumerate(names)}
    with warnings.catch_warnings():
        warnings.simplefilter("ignore")
        dr = hrng.Scripted(pyrandom.Random(rng.randrange(10 ** 9)), real_fn=lambda g: g.random())
        with dr.installed():
            st = GeometricReservoirStorage(size=3, store_targets=False, constant_probability=1.0) if storage_kind == "geom" else \
                IntervalStorage(size=2, store_targets=False)
            imp = DefaultImputer(model, dict(defaults)) if imputer_kind == "default" else MarginalImputer(model, imputer_kind, st)
            kw = dict(dynamic_setting=True, smoothing_alpha=alpha) if dynamic else dict(dynamic_setting=False)
            ex = IncrementalPFI(model, loss, list(names), storage=st, imputer=imp, n_inner_samples=n_inner, **kw)
            est, var, nexp = {}, {}, 0
            for t in range(T):
                x = {f: Q(rng.randint(-4, 4), rng.randint(1, 3)) + 10 * (t + 1) for f in names}     # unique per step
                y = Q(rng.randint(-3, 3), 2)
                sparse = t >= 1 and rng.random() < 0.5
                if sparse:
                    del x[rng.choice(names)]      # a sparse observation is explained but not stored (stored rows stay dense)
                stored = [dict(r) for r in st.get_data()[0]]
                del inputs[:]
                try:
                    ex.explain_one(dict(x), y, update_storage=not sparse)
                except Exception as exn:
                    return f"call {t + 1} ({'sparse' if sparse else 'dense'} observation {x}) raised {core.err_kind(exn)}: {exn}"
                if t == 0:
                    if inputs or ex.importance_values:
                        return "the first observation did more than seed the storage"
                    continue
                nexp += 1
                want_n = 1 + d * (1 if imputer_kind == "default" else n_inner)
                if len(inputs) != want_n:
                    return f"call {t + 1}: {len(inputs)} model evaluations, expected {want_n}"
                # attribute every evaluation by CONTENT (the order of the evaluations is not prescribed): values are unique per step,
                # so an input is either the observation itself or differs from it in exactly one feature
                groups, plain = {f: [] for f in names}, 0
                for z in inputs:
                    if z == x:
                        plain += 1
                        continue
                    diff = [f for f in names if (f in z) != (f in x) or (f in z and z[f] != x[f])]
                    bg = ([defaults[diff[0]]] if imputer_kind == "default" else [r[diff[0]] for r in stored]) if len(diff) == 1 else []
                    if len(diff) != 1 or set(z) - set(names) != set(x) - set(names) or diff[0] not in z or not any(z[diff[0]] == b for b in bg):
                        return (f"call {t + 1} ({'sparse' if sparse else 'dense'} observation {x}): the model was evaluated on {z}, which is neither the "
                                f"observation nor the observation with one feature replaced by a background value (stored: {stored})")
                    groups[diff[0]].append(z)
                if plain != 1:
                    return f"call {t + 1}: the unperturbed observation {x} was evaluated {plain} times"
                base = loss(y, pure_model(x))
                per = 1 if imputer_kind == "default" else n_inner
                for i, f in enumerate(names):
                    zs = groups[f]
                    if len(zs) != per:
                        return (f"call {t + 1} ({'sparse' if sparse else 'dense'} observation {x}): {len(zs)} inner predictions with only {f!r} replaced, "
                                f"expected {per}; evaluated inputs: {inputs}")
                    losses = [loss(y, pure_model(z)) for z in zs]
                    c = sum(losses, Q(0)) / len(losses) - base
                    old = est.get(f, Q(0))
                    est[f] = (old + alpha * (c - old)) if dynamic else (old + (c - old) / nexp)
                    dev = (c - est[f]) * (c - est[f])
                    oldv = var.get(f, Q(0))
                    var[f] = (oldv + alpha * (dev - oldv)) if dynamic else (oldv + (dev - oldv) / nexp)
                got, gotv = dict(ex.importance_values), dict(ex.variances)
                for f in names:
                    if f not in got or got[f] != est[f]:
                        return f"after call {t + 1} importance of {f!r} is {got.get(f)} but the running statistic of the contributions is {est[f]}"
                    if f not in gotv or gotv[f] != var[f]:
                        return f"after call {t + 1} variance of {f!r} is {gotv.get(f)} but the running statistic of the squared deviations is {var[f]}"
    return None


def run(tier="quick", seed=0, replay=None):
    chk = core.Check("C02", tier, seed, "proof")
    chk.rule = ("IncrementalPFI configurations from the explainer configuration space (see C01), streams of 3..6 calls with "
                "per-call update_storage / n_inner overrides; additionally runs in which the model ignores one feature, and streams with SPARSE "
                "observations (a feature missing from the explained observation) against a reference written from the statement. "
                "Non-trivial: at least one explained call; distinct by hash of (config, stream).")
    chk.trusted = ["Lean 4.33.0 kernel", "axioms propext/Classical.choice/Quot.sound",
                   "hand-written model Model/Explainer.lean (pfiStep) tied by this correspondence; tracker kernels by translation",
                   "driver JSON glue; harness.q.Q; callbacks recorded as finite tables"]
    chk.assumptions = ["exact arithmetic (floats: C20)"]
    if replay:
        print(open(replay).read())
        return 1
    core.lean_stage(chk, "C02", extra_props=["E2Eb"])
    core.soft_bridge(chk)
    from harness import cover
    from harness import fingerprint
    fingerprint.direct(chk, ['ixai/explainer/pfi.py', 'ixai/explainer/base.py', 'ixai/utils/tracker/multi_value.py', 'ixai/imputer/marginal_imputer.py', 'ixai/imputer/default_imputer.py'])
    _cv = cover.Cover(['ixai/explainer/pfi.py', 'ixai/explainer/base.py', 'ixai/utils/tracker/multi_value.py', 'ixai/imputer/marginal_imputer.py', 'ixai/imputer/default_imputer.py'])
    _cv.__enter__()
    quick = tier == "quick"

    def extra(rig, cfg):
        first = rig.steps[0]
        if first["error"] is None and (first["est"]["importance"] or first["model_calls"] or first["loss_calls"]):
            chk.violation("first-call", f"IncrementalPFI {_expl.cfg_desc(cfg)}: the first observation did more than seed the storage "
                          f"(importance={first['est']['importance']}, model calls={first['model_calls']})",
                          _expl.replay_payload(rig, cfg, 0))
    _expl.spec_equality_check(chk, "C02", "pfi", ["importance", "variance"], chk.count(70, 700), extra, "IncrementalPFI")
    _expl.long_stream_probe(chk, "pfi", ["ixai/explainer/pfi.py", "ixai/explainer/base.py", "ixai/utils/tracker/multi_value.py"], "IncrementalPFI")
    # a feature the model ignores has importance zero
    for i in range(chk.count(15, 150)):
        cfg = next(iter(_expl.gen_configs(chk, "pfi", 1)))
        cfg = dict(cfg, d=chk.rng.randint(2, 4), dynamic=chk.rng.random() < 0.5, model_kind=chk.rng.choice(["scalar", "multi", "grow"]),
                   imputer_kind=chk.rng.choice(["joint", "product", "default"]), n_inner=chk.rng.randint(1, 3))
        rig = explain.Rig(chk.rng, **cfg)
        ign = chk.rng.randrange(cfg["d"])
        rig.ignored = {ign}
        for t in range(4):
            rig.step()
        chk.case({"ignored_feature": ign, "config": _expl.cfg_desc(cfg), "first_x": rig.steps[0]["x"]}, nontrivial=True, sample=(i < 1))
        chk.stat("ignored_feature_runs")
        imp = dict((k, v) for k, v in rig.steps[-1]["est"]["importance"])
        if rig.steps[-1]["error"] is None and imp.get(ign) != "0":
            chk.violation("ignored-feature", f"IncrementalPFI {_expl.cfg_desc(cfg)}: the model ignores feature {rig.names[ign]!r} but "
                          f"its importance is {imp.get(ign)}", _expl.replay_payload(rig, cfg, 3))
    # sparse (river-style) observations against a reference written from the statement
    for i in range(chk.count(16, 160)):
        dyn, d, n_inner = i % 2 == 0, chk.rng.randint(1, 4), chk.rng.randint(1, 3)
        sk, ik = chk.rng.choice(["geom", "interval"]), chk.rng.choice(["joint", "product", "default"])
        sd = chk.rng.randrange(10 ** 9)
        dsc = {"sparse_stream": True, "dynamic": dyn, "d": d, "n_inner": n_inner, "storage": sk, "imputer": ik, "seed": sd}
        chk.case(dsc, nontrivial=True, sample=(i < 1))
        chk.stat("sparse_stream_runs")
        import random as _r
        f = sparse_stream_fails(_r.Random(sd), dyn, d, n_inner, 6, sk, ik)
        if f:
            chk.violation("sparse-observation", f"IncrementalPFI (dynamic={dyn}, d={d}, n_inner={n_inner}, {sk} storage, {ik} imputer, seed {sd}): {f}", dsc)
    _cv.__exit__(None, None, None)
    cover.gate(chk, _cv, only_functions=['IncrementalPFI', 'BaseIncrementalFeatureImportance.__init__', 'BaseIncrementalFeatureImportance.importance_values', 'BaseIncrementalFeatureImportance.variances', 'MultiValueTracker', 'MarginalImputer', 'DefaultImputer'])
    chk.exhaustive = False
    chk.extra["explanation"] = ("pfi_refines_spec: importance/variance trackers of every feature are folds of the base statistic over the "
                                "per-observation contributions (closed forms via C10/C12), for every stream; the real class is compared "
                                "with that spec on recorded callbacks in exact arithmetic.")
    return chk.finish()
