"""C02 — incremental PFI is the running statistic of (mean imputed loss - original loss).

Stage A: Props/C02.lean (`pfi_refines_spec`, closed forms, first call only seeds, ignored feature has importance 0).
Stage B: real IncrementalPFI in exact arithmetic vs the Lean spec evaluated by the driver on the recorded callbacks
         (importance values and variances after every call), plus direct oracles: first call leaves the estimates
         empty; a feature the model ignores has importance exactly 0.
"""
from harness import core, explain
from harness.q import Q, rs
from harness.props import _expl


def run(tier="quick", seed=0, replay=None):
    chk = core.Check("C02", tier, seed, "proof")
    chk.rule = ("IncrementalPFI configurations from the explainer configuration space (see C01), streams of 3..6 calls with "
                "per-call update_storage / n_inner overrides; additionally runs in which the model ignores one feature. "
                "Non-trivial: at least one explained call; distinct by hash of (config, stream).")
    chk.trusted = ["Lean 4.33.0 kernel", "axioms propext/Classical.choice/Quot.sound",
                   "hand-written model Model/Explainer.lean (pfiStep) tied by this correspondence; tracker kernels by translation",
                   "driver JSON glue; harness.q.Q; callbacks recorded as finite tables"]
    chk.assumptions = ["exact arithmetic (floats: C20)"]
    if replay:
        print(open(replay).read())
        return 1
    core.lean_stage(chk, "C02", extra_props=["E2Eb"])
    core.soft_bridge(chk)
    from harness import cover
    from harness import fingerprint
    fingerprint.direct(chk, ['ixai/explainer/pfi.py', 'ixai/explainer/base.py', 'ixai/utils/tracker/multi_value.py', 'ixai/imputer/marginal_imputer.py', 'ixai/imputer/default_imputer.py'])
    _cv = cover.Cover(['ixai/explainer/pfi.py', 'ixai/explainer/base.py', 'ixai/utils/tracker/multi_value.py', 'ixai/imputer/marginal_imputer.py', 'ixai/imputer/default_imputer.py'])
    _cv.__enter__()
    quick = tier == "quick"

    def extra(rig, cfg):
        first = rig.steps[0]
        if first["error"] is None and (first["est"]["importance"] or first["model_calls"] or first["loss_calls"]):
            chk.violation("first-call", f"IncrementalPFI {_expl.cfg_desc(cfg)}: the first observation did more than seed the storage "
                          f"(importance={first['est']['importance']}, model calls={first['model_calls']})",
                          _expl.replay_payload(rig, cfg, 0))
    _expl.spec_equality_check(chk, "C02", "pfi", ["importance", "variance"], chk.count(70, 700), extra, "IncrementalPFI")
    _expl.long_stream_probe(chk, "pfi", ["ixai/explainer/pfi.py", "ixai/explainer/base.py", "ixai/utils/tracker/multi_value.py"], "IncrementalPFI")
    # a feature the model ignores has importance zero
    for i in range(chk.count(15, 150)):
        cfg = next(iter(_expl.gen_configs(chk, "pfi", 1)))
        cfg = dict(cfg, d=chk.rng.randint(2, 4), dynamic=chk.rng.random() < 0.5, model_kind=chk.rng.choice(["scalar", "multi", "grow"]),
                   imputer_kind=chk.rng.choice(["joint", "product", "default"]), n_inner=chk.rng.randint(1, 3))
        rig = explain.Rig(chk.rng, **cfg)
        ign = chk.rng.randrange(cfg["d"])
        rig.ignored = {ign}
        for t in range(4):
            rig.step()
        chk.case({"ignored_feature": ign, "config": _expl.cfg_desc(cfg), "first_x": rig.steps[0]["x"]}, nontrivial=True, sample=(i < 1))
        chk.stat("ignored_feature_runs")
        imp = dict((k, v) for k, v in rig.steps[-1]["est"]["importance"])
        if rig.steps[-1]["error"] is None and imp.get(ign) != "0":
            chk.violation("ignored-feature", f"IncrementalPFI {_expl.cfg_desc(cfg)}: the model ignores feature {rig.names[ign]!r} but "
                          f"its importance is {imp.get(ign)}", _expl.replay_payload(rig, cfg, 3))
    _cv.__exit__(None, None, None)
    cover.gate(chk, _cv, only_functions=['IncrementalPFI', 'BaseIncrementalFeatureImportance.__init__', 'BaseIncrementalFeatureImportance.importance_values', 'BaseIncrementalFeatureImportance.variances', 'MultiValueTracker', 'MarginalImputer', 'DefaultImputer'])
    chk.exhaustive = False
    chk.extra["explanation"] = ("pfi_refines_spec: importance/variance trackers of every feature are folds of the base statistic over the "
                                "per-observation contributions (closed forms via C10/C12), for every stream; the real class is compared "
                                "with that spec on recorded callbacks in exact arithmetic.")
    return chk.finish()
