"""C18 — results are reproducible from the global seeds.

Stage A: Props/C18.lean — locality of draws for the regenerated reservoir kernels and the joint imputer (a step's result
         is a function of the state, the observation and the draws it consumes).  Determinism itself is true of every Lean
         function by construction and is NOT what carries the property.
Stage B: record/replay on the real library in float mode: for every explainer x storage x imputer configuration, with
         random.seed(a); np.random.seed(b): (1) two replays are bit-identical (storage contents, importance values after
         every call); (2) a replay preceded by creating and USING decoy storages / explainers / trackers (before seeding) is
         bit-identical; (3) pass-through recording of every draw does not change the result and two recorded runs have
         identical draw logs; (4) the same under two other PYTHONHASHSEED values (child processes; same value within a pair);
         (5) static scan of ixai/ for entropy sources other than random.* / np.random.*.
"""
import hashlib
import os
import re
import subprocess
import sys
import warnings

from harness import core, rng as hrng

TREE_SEED = 0   # an explicit seed, and a falsy one: `seed=0` must seed the tree learners just like any other integer
CONFIGS = []
for kind in ("pfi", "sage", "batch", "interval"):
    for storage in ("geom", "uniform", "default", "tree"):
        for imputer in ("joint", "product", "tree", "tree0", "default"):
            if (storage == "tree") != (imputer in ("tree", "tree0")):
                continue
            if kind in ("batch", "interval") and storage in ("tree", "geom", "uniform"):
                continue
            CONFIGS.append((kind, storage, imputer))
CONFIGS.append(("batch-original", "default", "default"))      # BatchSage.explain_one(..., original_sage=True)
CONFIGS.append(("pfi", "geom", "river-labels"))
CONFIGS.append(("sage", "geom", "river-labels"))
# ONE model object, handed to the explainers as a raw bound method (so the library chooses and creates the wrapper): explaining the
# same model again, or after another explainer has used it, must give the same results
CONFIGS.append(("pfi", "geom", "river-shared"))
CONFIGS.append(("sage", "geom", "river-shared"))
CONFIGS.append(("sage-static", "geom", "river-shared"))


def model(x):
    def one(z):
        return {"output": 1.5 * z["a"] - 0.7 * z["b"] * z["c"] + 0.1 * z["c"]}
    if isinstance(x, dict):
        return one(x)
    return [one(z) for z in x]


def loss(y, p):
    return (y - p["output"]) ** 2


def stream(n, sd):
    import random
    r = random.Random(sd)
    out = []
    for i in range(n):
        a = r.gauss(0, 1)
        b = r.choice([0.0, 1.0, 2.0])
        c = a * 0.5 + r.gauss(0, 1) + (3.0 if i > n // 2 else 0.0)
        out.append(({"a": a, "b": b, "c": c}, 1.5 * a - 0.7 * b * c + r.gauss(0, 0.1)))
    return out


def label_model():
    """a river-style classifier returning STRING labels, behind the library's RiverWrapper (one-hot over the labels seen so far)"""
    from ixai.utils.wrappers import RiverWrapper

    class Clf:
        def predict_one(self, x):
            return ("pos" if x["a"] > 0 else ("neg" if x["c"] < 2 else "mid")) + LABEL_TAG
    return RiverWrapper(Clf().predict_one)


class river_like_clf:
    """stands in for a river classifier (validate_model_function dispatches on 'river' in the type's name); stateless"""
    def predict_one(self, x):
        return ("pos" if x["a"] > 0 else ("neg" if x["c"] < 2 else "mid")) + LABEL_TAG


# the label strings are different for every configuration (same within the runs that are compared with each other), so that whatever
# the library may remember about labels met in EARLIER scenarios cannot mask a difference between the runs of this one
LABEL_TAG = ""
SHARED_MODEL = river_like_clf()


def brier(y, p):
    """label-averaged squared error: sensitive to additional zero-probability labels"""
    want = ("pos" if y > 0 else "neg") + LABEL_TAG
    return sum((v - (1.0 if k == want else 0.0)) ** 2 for k, v in p.items()) / max(1, len(p))


def build(kind, storage, imputer):
    from ixai.explainer import IncrementalPFI, IncrementalSage
    from ixai.explainer.sage import BatchSage, IntervalSage
    from ixai.storage import GeometricReservoirStorage, UniformReservoirStorage, TreeStorage
    from ixai.imputer import MarginalImputer, TreeImputer
    names = ["a", "b", "c"]
    st = None
    if storage == "geom":
        st = GeometricReservoirStorage(size=5, store_targets=False)
    elif storage == "uniform":
        st = UniformReservoirStorage(size=5, store_targets=False)
    elif storage == "tree":
        st = TreeStorage(cat_feature_names=["b"], num_feature_names=["a", "c"], max_depth=3, leaf_reservoir_length=3,
                         grace_period=5, seed=TREE_SEED)
    imp = None
    if imputer == "river-shared":
        cls = IncrementalPFI if kind == "pfi" else IncrementalSage
        return cls(SHARED_MODEL.predict_one, brier, names, storage=st, n_inner_samples=2, smoothing_alpha=0.1,
                   dynamic_setting=(kind != "sage-static"))
    if imputer == "river-labels":
        m = label_model()
        cls = IncrementalPFI if kind == "pfi" else IncrementalSage
        return cls(m, brier, names, storage=st, imputer=MarginalImputer(m, "joint", st), n_inner_samples=2, smoothing_alpha=0.1)
    if imputer in ("joint", "product") and st is not None:
        imp = MarginalImputer(model, imputer, st)
    elif imputer == "tree":
        imp = TreeImputer(model, st, use_storage=True)
    elif imputer == "tree0":
        imp = TreeImputer(model, st, use_storage=False)
    if kind == "pfi":
        return IncrementalPFI(model, loss, names, storage=st, imputer=imp, n_inner_samples=2, smoothing_alpha=0.1)
    if kind == "sage":
        return IncrementalSage(model, loss, names, storage=st, imputer=imp, n_inner_samples=2, smoothing_alpha=0.1)
    if kind in ("batch", "batch-original"):
        return BatchSage(model, names, loss, n_inner_samples=(2 if kind == "batch-original" else 1))
    return IntervalSage(model, names, loss, n_inner_samples=1, interval_length=3, storage_length=4)


def digest(ex):
    xs, ys = ([], [])
    try:
        st = ex._storage
        if hasattr(st, "data_reservoirs"):   # TreeStorage: the contents are the per-feature, per-leaf reservoirs
            xs = [(repr(f), leaf[-40:], [sorted(p.items()) for p in r.get_data()[0]]) for f, d in sorted(st.data_reservoirs.items(), key=repr)
                  for leaf, r in sorted(d.items())]
        else:
            data = st.get_data()
            xs, ys = [sorted(x.items()) for x in data[0]], list(data[1])
    except Exception as exn:
        xs = [repr(exn)]
    return repr((xs, ys))


class VirtualClock:
    """replaces the clock functions of the `time` module: `step` seconds pass between any two readings (0 = time stands still)"""
    NAMES = ("time", "monotonic", "perf_counter", "process_time", "time_ns", "monotonic_ns", "perf_counter_ns")

    def __init__(self, step):
        self.step, self.now, self.saved = step, 1.0e6, {}

    def __enter__(self):
        import time

        def tick():
            self.now += self.step
            return self.now
        for nm in self.NAMES:
            self.saved[nm] = getattr(time, nm)
            setattr(time, nm, (lambda: int(tick() * 1e9)) if nm.endswith("_ns") else tick)
        return self

    def __exit__(self, *a):
        import time
        for nm, f in self.saved.items():
            setattr(time, nm, f)


def run_once(cfg, sa, sb, n=14, decoys=False, record=False, fresh_model=True, clock_step=None):
    if clock_step is not None:
        with VirtualClock(clock_step):
            return run_once(cfg, sa, sb, n=n, decoys=decoys, record=record, fresh_model=fresh_model)
    import random
    import numpy as np
    global SHARED_MODEL
    kind, storage, imputer = cfg
    if fresh_model:
        # a model object the library has not seen before (whatever the library remembers about models it met earlier does not apply)
        SHARED_MODEL = river_like_clf()
    if storage == "tree":
        n = 420      # long enough for the per-feature trees to split and, after the drift, to grow alternate sub-trees
    with warnings.catch_warnings():
        warnings.simplefilter("ignore")
        if decoys:
            # other library objects created AND used before seeding
            from ixai.storage import GeometricReservoirStorage, UniformReservoirStorage
            from ixai.utils.tracker import WelfordTracker, MultiValueTracker
            d1 = UniformReservoirStorage(size=2)
            d2 = GeometricReservoirStorage(size=2)
            for i in range(9):
                d1.update({"a": i}, i)
                d2.update({"a": i}, i)
            dex = build("sage", "geom", "joint")
            for x, y in stream(5, 99):
                dex.explain_one(x, y)
            dex2 = build("sage", "geom", "river-shared")      # another explainer on the very same model object
            for x, y in stream(9, 97):
                dex2.explain_one(x, y)
            dex3 = build("pfi", "uniform", "product")         # and one of every incremental kind, with per-call budgets, on other data
            for t, (x, y) in enumerate(stream(11, 96)):
                dex3.explain_one({k: 1000.0 * v + 7 for k, v in x.items()}, 50.0 * y, **({"n_inner_samples": 1 + t % 3} if t % 2 else {}))
            MultiValueTracker(WelfordTracker()).update({"q": 1.0})
            from ixai.utils.wrappers import RiverWrapper
            dw = RiverWrapper(lambda x: "label-only-the-decoy-emits" if x["a"] > 0 else "another-decoy-label")
            for x, _ in stream(6, 98):
                dw(x)
            junk = [object() for _ in range(1000)]  # shifts object identities
        random.seed(sa)
        np.random.seed(sb)
        rec = hrng.Recorded() if record else None
        ctx = rec.installed() if rec else None
        if ctx:
            ctx.__enter__()
        try:
            # a bystander created AFTER seeding and never used: a storage left at its default (no seed of its own) must not touch the
            # global generators the run is seeded through
            from ixai.storage import TreeStorage as _TS
            bystander = _TS(cat_feature_names=["b"], num_feature_names=["a", "c"])
            ex = build(*cfg)
            outs = []
            for t, (x, y) in enumerate(stream(n, 7)):
                kw = {"verbose": False} if kind in ("batch", "interval", "batch-original") else {}
                if kind == "batch-original":
                    kw["original_sage"] = True
                if kind in ("pfi", "sage", "sage-static") and t % 5 == 3:
                    kw["n_inner_samples"] = 1 if t % 10 == 3 else 3     # a per-call budget below / above the configured one
                r = ex.explain_one(x, y, **kw)
                outs.append(sorted((repr(k), repr(float(v))) for k, v in r.items()))
        finally:
            if ctx:
                ctx.__exit__(None, None, None)
    log = [(k, n_, repr(v)) for k, n_, v in rec.log] if rec else None
    return hashlib.sha1(repr((outs, digest(ex))).encode()).hexdigest(), outs[-1], log


def static_scan():
    hits = []
    pat = re.compile(r"\b(time\.(time|monotonic|perf_counter|process_time|thread_time)(_ns)?\b|datetime\.(now|today|utcnow)|date\.today|os\.urandom|"
                     r"os\.getpid|secrets\.|uuid\.|default_rng|SystemRandom|random\.Random\(|np\.random\.RandomState\(|\bid\(|\bhash\()")
    for root, _, files in os.walk(os.path.join(core.REPO, "ixai")):
        if "visualization" in root:
            continue
        for f in files:
            if f.endswith(".py"):
                p = os.path.join(root, f)
                for i, line in enumerate(open(p), 1):
                    code = line.split("#", 1)[0]
                    if pat.search(code):
                        hits.append(f"{os.path.relpath(p, core.REPO)}:{i}: {line.strip()[:90]}")
    return hits


def child_main():
    """run in a child process under another PYTHONHASHSEED: every configuration twice; exit 1 on any difference"""
    global LABEL_TAG
    bad = []
    for ci, cfg in enumerate(CONFIGS):
        LABEL_TAG = f"#c{ci}"
        a = run_once(cfg, 11, 12)[0]
        b = run_once(cfg, 11, 12, decoys=True)[0]
        if a != b:
            bad.append(cfg)
    print("CHILD", "DIFF " + repr(bad) if bad else "OK", len(CONFIGS))
    sys.exit(1 if bad else 0)


def run(tier="quick", seed=0, replay=None):
    chk = core.Check("C18", tier, seed, "other")
    chk.rule = (f"{len(CONFIGS)} explainer x storage x imputer configurations (PFI, SAGE, batch, interval; geometric, uniform, default, tree "
                "storages; joint, product, tree, default imputers), float mode, 14-observation drifting stream, seeds drawn from VERIF_SEED: "
                "replay pair, replay after decoys, recorded replay pair, virtual clock; per-call budgets below / above the configured one; an unused "
                "default-constructed TreeStorage created after seeding; child processes under 2 other PYTHONHASHSEED values. "
                "Non-trivial: always; distinct by hash of (configuration, seeds, mode).")
    chk.trusted = ["Lean 4.33.0 kernel for the locality theorems (Props/C18.lean)", "random.seed / np.random.seed fully determine the global generators (library contract)",
                   "TreeStorage is given an explicit seed (with seed=None river's trees seed themselves from the OS: outside the property)"]
    chk.assumptions = ["C18 is partial: determinism is by construction in the model; the property is carried by this record/replay run",
                       "same interpreter configuration within a pair (PYTHONHASHSEED fixes set iteration order)"]
    if replay:
        print(open(replay).read())
        return 1
    core.lean_stage(chk, "C18")
    sa, sb = 1000 + seed, 2000 + 3 * seed
    global LABEL_TAG
    for ci, cfg in enumerate(CONFIGS):
        LABEL_TAG = f"#{ci}"
        try:
            a = run_once(cfg, sa, sb)
            b = run_once(cfg, sa, sb, fresh_model=(cfg[2] != "river-shared"))     # river-shared: the SAME model object is explained again
            c = run_once(cfg, sa, sb, decoys=True)                                 # river-shared: a decoy explainer used the same model first
            r1 = run_once(cfg, sa, sb, record=True)
            r2 = run_once(cfg, sa, sb, decoys=True, record=True)
            other = run_once(cfg, sa + 1, sb + 1)
            slow = run_once(cfg, sa, sb, clock_step=2.5)      # the same replay while 2.5 s pass between any two clock readings
            still = run_once(cfg, sa, sb, clock_step=0.0)     # ... and while time stands still
        except Exception as ex:
            chk.violation(f"exception:{cfg}", f"configuration {cfg} raised {core.err_kind(ex)}: {ex}", {"config": cfg})
            continue
        for mode in ("replay", "decoys", "recorded", "recorded+decoys", "virtual-clock"):
            chk.case({"config": cfg, "seeds": [sa, sb], "mode": mode, "last_values": a[1]}, nontrivial=True, sample=(cfg == CONFIGS[0] and mode == "replay"))
        chk.stat(f"kind:{cfg[0]}")
        chk.stat("draws_recorded", len(r1[2] or []))
        if a[0] != b[0]:
            chk.violation(f"replay:{cfg}", f"{cfg}: two replays with random.seed({sa}), np.random.seed({sb}) differ: {a[1]} vs {b[1]}", {"config": cfg, "seeds": [sa, sb]})
        elif a[0] != c[0]:
            chk.violation(f"decoys:{cfg}", f"{cfg}: replay after creating and using other library objects differs: {a[1]} vs {c[1]}", {"config": cfg, "seeds": [sa, sb]})
        elif a[0] != slow[0] or a[0] != still[0]:
            which = "2.5 s pass between any two readings of the clock" if a[0] != slow[0] else "time stands still"
            chk.violation(f"clock:{cfg}", f"{cfg}: the replay differs when {which} (virtual clock substituted for the `time` module's clock functions): "
                          f"{a[1]} vs {(slow if a[0] != slow[0] else still)[1]}", {"config": cfg, "seeds": [sa, sb], "virtual_clock": True})
        elif a[0] != r1[0]:
            chk.tie_failure("recording", f"{cfg}: pass-through recording of the draws changed the result")
        elif r1[2] != r2[2] or r1[0] != r2[0]:
            chk.violation(f"draw-log:{cfg}", f"{cfg}: two seeded runs made different draws or produced different results from identical draws", {"config": cfg})
        if other[0] == a[0] and cfg[0] in ("pfi", "sage") and cfg[1] != "default":
            chk.stat("seed_insensitive_config")
    for hs in ("1", "12345"):
        env = dict(os.environ, PYTHONHASHSEED=hs)
        p = subprocess.run([sys.executable, "-W", "ignore", "-c", "from harness.props import c18; c18.child_main()"],
                           cwd=core.VERIF, env=env, capture_output=True, text=True, timeout=900)
        chk.case({"child": True, "PYTHONHASHSEED": hs, "configs": len(CONFIGS)}, nontrivial=True, sample=False)
        chk.stat("child_runs")
        if p.returncode != 0:
            line = [ln for ln in p.stdout.splitlines() if ln.startswith("CHILD")]
            if line:
                chk.violation(f"hashseed:{hs}", f"under PYTHONHASHSEED={hs}: {line[0]}", {"PYTHONHASHSEED": hs})
            else:
                chk.tie_failure("child", f"child process failed: {p.stderr[-400:]}")
    hits = static_scan()
    chk.extra["entropy_scan_hits"] = hits
    if hits:
        chk.tie_failure("entropy-scan", "possible entropy sources other than random.* / np.random.*: " + "; ".join(hits[:5]))
    chk.exhaustive = False
    chk.extra["explanation"] = ("Determinism of the model holds by construction and proves nothing about the code; locality of draws is proved for the regenerated "
                                "kernels. The property is decided by record/replay on the real library: bit-identical replays, also after decoy objects, identical "
                                "recorded draw logs, under several PYTHONHASHSEED values, plus a static scan for other entropy sources.")
    return chk.finish()
