"""C20 — float results stay close to exact arithmetic.

Stage A: theorems of Props/C20.lean: error bounds in the standard rounding model for the kernels regenerated with every
         arithmetic operation wrapped in `fl`, in the operation order of the Python source.
Stage B: (tie) the generated kernels executed in binary64 by the Lean driver must agree BIT FOR BIT with the Python
         classes on the same float streams (validates the operation order the theorems are about);
         (oracle) real trackers in float against exact references, with the proved constants for mean and smoothing
         and 8·n·u·kappa for the variance (the variance bound is not a theorem: search oracle only).
"""
import decimal
import math
import struct
from fractions import Fraction

from harness import core

U = 2.0 ** -53
FILES = ["ixai/utils/tracker/welford.py", "ixai/utils/tracker/exponential_smoothing.py"]


def bits(f):
    return str(struct.unpack("<Q", struct.pack("<d", float(f)))[0])


def gen_stream(rng, n, consts=()):
    shape = rng.choice(["gauss", "offset", "sorted", "alternating", "const-jump", "tiny", "huge", "mixed-mag"])
    scale = 10.0 ** rng.randint(-8, 8)
    if shape == "offset":
        off = rng.choice([1e3, 1e6, 1e9]) * scale
        vs = [off + scale * rng.gauss(0, 1) for _ in range(n)]
    elif shape == "tiny":
        vs = [1e-8 * rng.gauss(0, 1) for _ in range(n)]
    elif shape == "huge":
        vs = [1e8 * rng.gauss(0, 1) for _ in range(n)]
    elif shape == "mixed-mag":
        vs = [rng.gauss(0, 1) * 10.0 ** rng.randint(-8, 8) for _ in range(n)]
    else:
        vs = [scale * rng.gauss(0, 1) for _ in range(n)]
    if shape == "sorted":
        vs.sort()
    elif shape == "alternating":
        vs = [abs(v) if i % 2 == 0 else -abs(v) for i, v in enumerate(vs)]
    elif shape == "const-jump":
        vs = [vs[0]] * (n // 2) + [vs[0] + 1e6 * scale] * (n - n // 2)
    return shape, vs


def exact_mean_var(vs):
    n = len(vs)
    fr = [Fraction(v) for v in vs]
    m = sum(fr) / n
    var = sum((x - m) ** 2 for x in fr) / n
    return m, var


def es_reference(alpha, vs):
    decimal.getcontext().prec = 90
    a = decimal.Decimal(alpha)
    t = decimal.Decimal(0)
    one = decimal.Decimal(1)
    for v in vs:
        t = (one - a) * t + a * decimal.Decimal(v)
    return t


def welford_fails(vs, check_var=True):
    from ixai.utils.tracker import WelfordTracker
    t = WelfordTracker()
    for v in vs:
        t.update(v)
    n = len(vs)
    M = max(abs(v) for v in vs)
    try:
        mean, var, std = float(t.mean), float(t.var), t.std
        std = float(std)
    except TypeError:
        return f"std is not a real number ({t.std!r}) for var={t.var!r} on finite inputs"
    if not (math.isfinite(mean) and math.isfinite(var) and math.isfinite(std)):
        return f"non-finite result mean={mean} var={var} std={std} on finite inputs"
    em, ev = exact_mean_var(vs) if check_var else (sum(Fraction(v) for v in vs) / n, None)
    err = abs(Fraction(mean) - em)
    bound = Fraction(6 * n) * Fraction(U) * Fraction(M)
    if err > bound:
        return f"mean error {float(err):.3e} exceeds 6*n*u*max|v| = {float(bound):.3e} (n={n})"
    if check_var and ev is not None:
        if ev == 0:
            if abs(var) > 8 * n * U * M * M:
                return f"variance {var} for a constant stream"
        else:
            kappa = math.sqrt(1 + float(em * em / ev))
            rel = abs(Fraction(var) - ev) / ev
            if float(rel) > 8 * n * U * kappa:
                return f"relative variance error {float(rel):.3e} exceeds 8*n*u*kappa = {8 * n * U * kappa:.3e} (n={n}, kappa={kappa:.3e})"
        if var < 0:
            return f"negative variance {var}"
    return None


def sliding_fails(k, vs, every=1):
    """SlidingWindowTracker in binary64 against the exact mean / variance of the last k values: |mean - exact| <= 8 k u max|window|
    (a sum of k values), variance to 1e-9 relative to max|window|^2 — whatever passed through the window before."""
    from ixai.utils.tracker import SlidingWindowTracker
    t = SlidingWindowTracker(k)
    for i, v in enumerate(vs):
        t.update(v)
        if (i + 1) % every and i + 1 != len(vs):
            continue
        last = vs[max(0, i + 1 - k):i + 1]
        big = max(abs(x) for x in last)
        m, var = exact_mean_var(last)
        got_m, got_v, got_s = t.mean, t.var, t.std
        if not (math.isfinite(got_m) and math.isfinite(got_v) and math.isfinite(got_s)):
            return f"after {i + 1} finite values: mean/var/std = {got_m}/{got_v}/{got_s}"
        if abs(Fraction(got_m) - m) > Fraction(8 * k * U) * Fraction(big) + Fraction(5e-324):
            return (f"after {i + 1} values the window mean is {got_m!r}, the last {len(last)} values have mean {float(m)!r} "
                    f"(error {float(abs(Fraction(got_m) - m)):.3e} > 8 k u max|v| = {8 * k * U * big:.3e})")
        if abs(Fraction(got_v) - var) > Fraction(1e-9) * Fraction(big) ** 2 + Fraction(5e-324):
            return f"after {i + 1} values the window variance is {got_v!r}, the last {len(last)} values have variance {float(var)!r}"
    return None


def es_fails(alpha, vs):
    from ixai.utils.tracker import ExponentialSmoothingTracker
    t = ExponentialSmoothingTracker(alpha)
    for v in vs:
        t.update(v)
    got = float(t.get())
    M = max(abs(v) for v in vs)
    if not math.isfinite(got):
        return f"non-finite smoothed value {got}"
    ref = es_reference(alpha, vs)
    err = abs(decimal.Decimal(got) - ref)
    bound = decimal.Decimal(4 * U * M / alpha)
    if 16 * U <= alpha and err > bound:
        return f"smoothing error {float(err):.3e} exceeds 4*u*max|v|/alpha = {float(bound):.3e} (alpha={alpha}, n={len(vs)})"
    if abs(got) > 1.25 * M:
        return f"|smoothed value| {abs(got):.3e} exceeds 5/4 max|v|"
    return None


def extreme_es_fails(rng):
    """finite inputs of extreme magnitude (up to 1.7e308) with sign changes: the smoothed value is a convex combination of 0 and the
    inputs, hence finite; an implementation that forms `v - t` first overflows"""
    from ixai.utils.tracker import ExponentialSmoothingTracker
    for alpha in (1.0, 0.5, 0.001):
        big = rng.choice([1.5e308, 1.7e308, 9.9e307])
        patterns = [[big, -big, big, -big], [-big] * 300 + [big], [big] * 5 + [-big] * 5, [big * 0.999, -big, 0.0, big]]
        for vs in patterns:
            t = ExponentialSmoothingTracker(alpha)
            for i, v in enumerate(vs):
                t.update(v)
                got = t.get()
                if not math.isfinite(got) or abs(got) > big * 1.0000001:
                    return alpha, vs[:i + 1][-6:], f"after {i + 1} finite inputs of magnitude {big:.3g} (alpha={alpha}) the smoothed value is {got}"
    return None


def normalised_prediction_fails(alpha, T):
    """IncrementalSage's normalised running mean prediction for a probability-vector model, binary64 vs exact, after every call of a
    long smoothing stream (the sum of the smoothed probabilities approaches 1 from below like 1-(1-alpha)^t)"""
    import random as pyrandom
    import warnings
    from harness import rng as hrng
    from harness.q import Q
    from ixai.explainer import IncrementalSage
    from ixai.storage import GeometricReservoirStorage
    from ixai.imputer import MarginalImputer
    out = {}
    for mode in ("exact", "float"):
        conv = (lambda v: Q(v)) if mode == "exact" else float
        r = pyrandom.Random(5)

        def model(x):
            p = conv(0.25) + x["a"] * conv(0.5)
            return {"yes": p, "no": conv(1) - p}

        def loss(y, p):
            return (p.get("yes", 0) - y) * (p.get("yes", 0) - y)
        with warnings.catch_warnings():
            warnings.simplefilter("ignore")
            d = hrng.Scripted(pyrandom.Random(6), real_fn=lambda g: g.random())
            with d.installed():
                st = GeometricReservoirStorage(size=2, store_targets=False, constant_probability=1.0)
                ex = IncrementalSage(model, loss, ["a"], storage=st, imputer=MarginalImputer(model, "joint", st), n_inner_samples=1,
                                     dynamic_setting=True, smoothing_alpha=conv(alpha))
                vals = []
                for t in range(T):
                    ex.explain_one({"a": conv(r.randint(0, 8) / 8)}, conv(r.randint(0, 1)))
                    vals.append(dict(ex.marginal_prediction))
        out[mode] = vals
    for t, (e, f) in enumerate(zip(out["exact"], out["float"])):
        # independent reference: a normalised view of more than one label sums to one (exactly / to rounding)
        if len(e) > 1 and sum(e.values()) != 1:
            return f"after {t + 1} calls (alpha={alpha}) the exact normalised marginal prediction sums to {float(sum(e.values()))!r}, not 1"
        if len(f) > 1 and abs(sum(f.values()) - 1.0) > 8 * U:
            return f"after {t + 1} calls (alpha={alpha}) the binary64 normalised marginal prediction sums to {sum(f.values())!r} (|sum - 1| = {abs(sum(f.values()) - 1.0):.3e})"
        for k in e:
            if abs(float(f[k]) - float(e[k])) > 1e-12 * (t + 2):
                return f"after {t + 1} calls (alpha={alpha}) the normalised marginal prediction of {k!r} is {float(f[k])!r} in binary64 but {float(e[k])!r} exactly"
    return None


def explainer_pair_fails(kind, dynamic, T, sd):
    """the same stream, callbacks and draws through a real explainer once in exact rationals and once in binary64: the float
    importance values must stay within rounding of the exact ones ("trackers AND EXPLAINERS stay close to the exact result")"""
    import random as pyrandom
    import warnings
    from harness import rng as hrng
    from harness.q import Q
    from ixai.explainer import IncrementalPFI, IncrementalSage
    from ixai.storage import GeometricReservoirStorage
    from ixai.imputer import MarginalImputer
    names = ["a", "b", "c"]
    out = {}
    for mode in ("exact", "float"):
        conv = (lambda v: Q(v)) if mode == "exact" else float
        r = pyrandom.Random(sd)
        w = [r.randint(-8, 8) / 4 for _ in range(4)]

        def model(x):
            return {"output": conv(w[0]) * x["a"] + conv(w[1]) * x["b"] * x["c"] + conv(w[2]) * x["c"] + conv(w[3])}

        def loss(y, p):
            return (p["output"] - y) * (p["output"] - y)
        with warnings.catch_warnings():
            warnings.simplefilter("ignore")
            d = hrng.Scripted(pyrandom.Random(sd + 1), real_fn=lambda g: g.random())
            with d.installed():
                st = GeometricReservoirStorage(size=4, store_targets=False, constant_probability=1.0)
                cls = IncrementalPFI if kind == "pfi" else IncrementalSage
                ex = cls(model, loss, names, storage=st, imputer=MarginalImputer(model, "joint", st), n_inner_samples=2,
                         dynamic_setting=dynamic, smoothing_alpha=conv(0.125))
                vals = []
                for t in range(T):
                    x = {f: conv(r.randint(-64, 64) / 16 + (1000.0 if f == "c" else 0.0)) for f in names}
                    y = conv(r.randint(-64, 64) / 16)
                    vals.append(dict(ex.explain_one(x, y)))
        out[mode] = vals
    for t, (e, f) in enumerate(zip(out["exact"], out["float"])):
        scale = 1.0 + max([abs(float(v)) for v in e.values()] + [0.0])
        for k in e:
            fv = float(f[k])
            if not math.isfinite(fv) or abs(fv - float(e[k])) > 1e-9 * scale * (t + 1):
                return f"after {t + 1} calls importance of {k!r} is {fv!r} in binary64 but {float(e[k])!r} in exact arithmetic (same stream, callbacks and draws)"
    return None


def explainer_surfaces_fail(kind, dynamic, nfeat, model_kind, offset, T, sd):
    """"All results are finite whenever all inputs are": a real explainer driven by finite binary64 observations, model outputs and
    losses; after every call EVERY read-out it offers (importance values, variances, both normalised views, confidence bounds, and
    the SAGE losses) is queried and has to be a finite number. Shapes include the degenerate ones a stream starts with: a single
    explained feature, and a model that does not use its inputs (all contributions equal)."""
    import random as pyrandom
    import warnings
    from harness import rng as hrng
    from ixai.explainer import IncrementalPFI, IncrementalSage
    from ixai.storage import GeometricReservoirStorage
    from ixai.imputer import MarginalImputer
    names = ["a", "b", "c"][:nfeat]
    r = pyrandom.Random(sd)
    w = [r.randint(-8, 8) / 4 for _ in range(4)]

    def model(x):
        if model_kind == "constant":
            return {"output": w[3]}
        return {"output": sum(w[i] * x[f] for i, f in enumerate(names)) + w[3]}

    def loss(y, p):
        return (p["output"] - y) * (p["output"] - y)
    with warnings.catch_warnings():
        warnings.simplefilter("ignore")
        d = hrng.Scripted(pyrandom.Random(sd + 1), real_fn=lambda g: g.random())
        with d.installed():
            st = GeometricReservoirStorage(size=4, store_targets=False, constant_probability=1.0)
            cls = IncrementalPFI if kind == "pfi" else IncrementalSage
            ex = cls(model, loss, names, storage=st, imputer=MarginalImputer(model, "joint", st), n_inner_samples=2,
                     dynamic_setting=dynamic, smoothing_alpha=0.125)
            for t in range(T):
                x = {f: r.randint(-64, 64) / 16 + offset for f in names}
                y = r.randint(-64, 64) / 16 + offset * w[0]
                ex.explain_one(x, y)
                views = [("importance_values", lambda: ex.importance_values), ("variances", lambda: ex.variances),
                         ("get_normalized_importance_values('sum')", lambda: ex.get_normalized_importance_values("sum")),
                         ("get_normalized_importance_values('delta')", lambda: ex.get_normalized_importance_values("delta")),
                         ("get_confidence_bound(0.05)", lambda: ex.get_confidence_bound(0.05) if ex.variances else {})]
                if kind == "sage":
                    views += [("marginal_loss", lambda: {"": ex.marginal_loss}), ("model_loss", lambda: {"": ex.model_loss}),
                              ("explained_loss", lambda: {"": ex.explained_loss})]
                for what, get in views:
                    try:
                        got = get()
                    except ArithmeticError as exn:
                        return f"after {t + 1} calls on finite inputs {what} has no result: {core.err_kind(exn)}: {exn}"
                    for k, v in got.items():
                        try:
                            fin = math.isfinite(v)
                        except TypeError:
                            fin = False
                        if not fin:
                            return f"after {t + 1} calls on finite inputs {what}[{k!r}] = {v!r}"
    return None


def run(tier="quick", seed=0, replay=None):
    chk = core.Check("C20", tier, seed, "proof")
    chk.rule = ("float streams of 8 shapes (gaussian, large offset up to 1e9*spread, sorted, alternating, constant-then-jump, "
                "tiny 1e-8, huge 1e8, mixed magnitudes), scales 1e-8..1e8, lengths 1..20000 (quick) / ..1e6 (thorough); "
                "alpha in {1, 0.5, 0.1, 0.01, 0.001, 1e-6}; SlidingWindowTracker (k in 1,2,5,25) on the same shapes with outliers; every read-out "
                "of float explainers in degenerate shapes. Non-trivial: length >= 2; distinct by hash of (shape, seed, n).")
    chk.trusted = ["Lean 4.33.0 kernel", "axioms propext/Classical.choice/Quot.sound",
                   "py2lean (fl-wrapped variant) — validated bit-for-bit against Python floats in binary64",
                   "standard rounding model: fl(a op b) = (a op b)(1+d), |d| <= 2^-53, no overflow/underflow (IEEE-754 binary64)"]
    chk.assumptions = ["the relative variance bound is NOT a theorem (search oracle 8*n*u*kappa only): C20 is partial",
                       "n*u <= 1/100 and 16u <= alpha as in the theorems' hypotheses"]
    if replay:
        return do_replay(chk, replay)
    core.lean_stage(chk, "C20")
    rng = chk.rng
    quick = tier == "quick"
    # ---- tie: bit-for-bit
    reqs, expect = [], []
    for i in range(200 if quick else 1500):
        n = rng.randint(1, 60)
        shape, vs = gen_stream(rng, n)
        alpha = rng.choice([1.0, 0.5, 0.1, 0.01, 0.001, 1e-6, 1 / 3])
        reqs.append({"op": "welford_f", "vs": [bits(v) for v in vs]})
        expect.append(("welford", None, vs))
        reqs.append({"op": "es_f", "alpha": bits(alpha), "vs": [bits(v) for v in vs]})
        expect.append(("es", alpha, vs))
        chk.case({"tie": "binary64", "shape": shape, "n": n, "first": vs[:3]}, nontrivial=n >= 2)
    if core.driver_available():
        try:
            answers = core.run_driver(reqs)
        except Exception as ex:
            chk.tie_failure("driver", f"model driver failed: {ex}")
            answers = []
        from ixai.utils.tracker import WelfordTracker, ExponentialSmoothingTracker
        ndis = 0
        for ans, (kind, alpha, vs) in zip(answers, expect):
            chk.stat("bitwise_compared")
            if kind == "welford":
                t = WelfordTracker()
                for v in vs:
                    t.update(v)
                impl = {"N": t.N, "mean": bits(t.mean), "var": bits(t.var)}
            else:
                t = ExponentialSmoothingTracker(alpha)
                for v in vs:
                    t.update(v)
                impl = {"N": t.N, "get": bits(t.get())}
            model = {k: ans.get(k) for k in impl}
            if impl != model and ndis < 5:
                ndis += 1
                chk.tie_failure(f"binary64-translation-validation:{kind}",
                                f"generated kernel in binary64 and Python class differ on {kind} alpha={alpha} vs={vs[:8]}: impl={impl} model={model}")
    else:
        chk.tie_failure("driver", "model driver not built")
    # ---- oracle: proved bounds on the real classes
    sizes = [1, 2, 3, 10, 100, 1000, 5000, 20000] if quick else [1, 2, 10, 100, 1000, 20000, 100000, 300000]
    reps = 6 if quick else 10
    for n in sizes:
        for r in range(reps if n <= 20000 else 2):
            shape, vs = gen_stream(rng, n)
            chk.case({"oracle": "welford", "shape": shape, "n": n, "first": vs[:3]}, nontrivial=n >= 2)
            chk.stat(f"shape:{shape}")
            f = welford_fails(vs, check_var=(n <= 20000))
            if f:
                chk.violation("welford-float", f"WelfordTracker in float, {shape} stream: {f}",
                              {"tracker": "welford", "vs_bits": [bits(v) for v in vs[:5000]], "n": n, "shape": shape})
            alpha = rng.choice([1.0, 0.5, 0.1, 0.01, 0.001, 1e-6])
            if n <= 20000:
                chk.case({"oracle": "es", "alpha": alpha, "shape": shape, "n": n, "first": vs[:3]}, nontrivial=n >= 2)
                f = es_fails(alpha, vs)
                if f:
                    chk.violation("es-float", f"ExponentialSmoothingTracker in float, {shape} stream: {f}",
                                  {"tracker": "es", "alpha": alpha, "vs_bits": [bits(v) for v in vs[:5000]], "n": n})
    for i in range(6 if quick else 40):
        kind, dynamic = ["pfi", "sage"][i % 2], (i // 2) % 2 == 0
        T = 25 if quick else 400
        sd = rng.randrange(10 ** 6)
        chk.case({"oracle": "explainer-float-vs-exact", "kind": kind, "dynamic": dynamic, "calls": T, "seed": sd}, nontrivial=True, sample=(i == 0))
        try:
            f = explainer_pair_fails(kind, dynamic, T, sd)
        except Exception as exn:
            f = f"raised {core.err_kind(exn)}: {exn}"
        if f:
            chk.violation("explainer-float", f"{kind} (dynamic={dynamic}, seed {sd}): {f}", {"tracker": "explainer", "kind": kind, "dynamic": dynamic, "calls": T, "seed": sd})
    # the third tracker: statistics of the last k values, on the same stream shapes and with huge values passing through the window
    for r in range(12 if quick else 60):
        n = rng.choice([50, 400, 3000] if quick else [50, 400, 3000, 20000])
        k = rng.choice([1, 2, 5, 25])
        shape, vs = gen_stream(rng, n)
        if r % 3 == 0:
            shape += "+outlier"
            for _ in range(rng.randint(1, 3)):
                vs[rng.randrange(n)] = rng.choice([1e17, -3e18, 1e12]) * max(1e-300, max(abs(v) for v in vs))
        chk.case({"oracle": "sliding-window", "k": k, "shape": shape, "n": n, "first": vs[:3]}, nontrivial=n > k, sample=(r == 0))
        chk.stat(f"sliding:{shape}")
        try:
            f = sliding_fails(k, vs, every=(1 if n <= 3000 else 7))
        except Exception as exn:
            f = f"raised {core.err_kind(exn)}: {exn}"
        if f:
            chk.violation("sliding-float", f"SlidingWindowTracker({k}) in float, {shape} stream of {n}: {f}",
                          {"tracker": "sliding", "k": k, "vs_bits": [bits(v) for v in vs[:5000]], "n": n, "shape": shape})
    shapes = [(k, dyn, nf, mk, off) for k in ("pfi", "sage") for dyn in (True, False) for nf in (1, 2, 3) for mk in ("linear", "constant")
              for off in (0.0, 1e6)]
    for k, dyn, nf, mk, off in shapes:
        T = 12 if quick else 120
        sd = rng.randrange(10 ** 6)
        dsc = {"oracle": "explainer-results-finite", "kind": k, "dynamic": dyn, "features": nf, "model": mk, "offset": off, "calls": T, "seed": sd}
        chk.case(dsc, nontrivial=True, sample=False)
        chk.stat(f"finite-surfaces:{mk}:features={nf}")
        try:
            f = explainer_surfaces_fail(k, dyn, nf, mk, off, T, sd)
        except Exception as exn:
            f = f"raised {core.err_kind(exn)}: {exn}"
        if f:
            chk.violation("explainer-nonfinite", f"{k} (dynamic={dyn}, {nf} feature(s), {mk} model, offset {off:g}, seed {sd}): {f}",
                          dict(dsc, tracker="explainer-surfaces"))
    for alpha, T in ((0.125, 260), (0.5, 60)) if quick else ((0.125, 300), (0.5, 80), (0.015625, 150), (0.02, 60)):
        chk.case({"oracle": "normalised-marginal-prediction", "alpha": alpha, "calls": T}, nontrivial=True, sample=False)
        try:
            f = normalised_prediction_fails(alpha, T)
        except Exception as exn:
            f = f"raised {core.err_kind(exn)}: {exn}"
        if f:
            chk.violation("explainer-float", f"IncrementalSage with a probability-vector model: {f}", {"tracker": "explainer", "alpha": alpha, "calls": T})
    ex = extreme_es_fails(rng)
    chk.case({"oracle": "es-extreme-magnitudes"}, nontrivial=True, sample=False)
    if ex:
        chk.violation("es-overflow", f"ExponentialSmoothingTracker in float: {ex[2]}", {"tracker": "es", "alpha": ex[0], "vs_bits": [bits(v) for v in ex[1]], "n": len(ex[1])})
    chk.exhaustive = False
    chk.extra["explanation"] = ("Stage A: es_fl_error (4uM/alpha), welford_mean_fl_error (6nuM), boundedness of mean, sum of "
                                "squares and variance, increment non-negativity — theorems over the fl-wrapped kernels "
                                "regenerated from source. Stage B: bit-for-bit binary64 agreement of generated kernels with "
                                "the Python classes; bounds checked on the real classes against exact/90-digit references.")
    return chk.finish()


def do_replay(chk, path):
    import json
    r = json.load(open(path))
    rp = r.get("replay") or {}
    if not rp:
        print(json.dumps(r, indent=1))
        return 1
    if rp.get("tracker") == "explainer-surfaces":
        f = explainer_surfaces_fail(rp["kind"], rp["dynamic"], rp["features"], rp["model"], rp["offset"], rp["calls"], rp["seed"])
        print(f"replay {path}: {'FAILS: ' + f if f else 'passes on the current tree'}")
        return 1 if f else 0
    if rp.get("tracker") == "sliding":
        vs = [struct.unpack("<d", struct.pack("<Q", int(b)))[0] for b in rp["vs_bits"]]
        f = sliding_fails(rp["k"], vs)
        print(f"replay {path}: {'FAILS: ' + f if f else 'passes on the current tree'}")
        return 1 if f else 0
    if "vs_bits" not in rp:
        print(json.dumps(r, indent=1))
        return 1
    vs = [struct.unpack("<d", struct.pack("<Q", int(b)))[0] for b in rp["vs_bits"]]
    f = welford_fails(vs) if rp["tracker"] == "welford" else es_fails(rp["alpha"], vs)
    print(f"replay {path}: {'FAILS: ' + f if f else 'passes on the current tree'}")
    return 1 if f else 0
