"""C01 — incremental SAGE values sum to the explained loss.

Stage A: Props/C01.lean (`sage_efficiency` for every stream prefix, callbacks, order, kind, alpha, d, n).
Stage B: the real IncrementalSage in exact arithmetic against the Lean model (same callback tables, same order and
         imputer outputs), and the identity itself evaluated on the real object after every call.
"""
import itertools

from harness import core, explain
from harness.q import Q, rs
from harness.props import _expl

OBS = ["importance", "marginal_loss", "model_loss", "explained_loss"]


def identity_fails(rig):
    ex = rig.ex
    total = sum(ex.importance_values.values(), Q(0))
    if total != ex.explained_loss:
        return f"sum of importance values {rs(total)} != explained loss {rs(ex.explained_loss)} " \
               f"(marginal {rs(ex.marginal_loss)} - model {rs(ex.model_loss)})"
    if ex.explained_loss != ex.marginal_loss - ex.model_loss:
        return "explained_loss != marginal_loss - model_loss"
    return None


def run(tier="quick", seed=0, replay=None):
    chk = core.Check("C01", tier, seed, "proof")
    chk.rule = ("IncrementalSage configurations (static/dynamic, alpha in {1,1/2,1/3,1/1000,999/1000}, d 1..4, n_inner 1..3, "
                "scalar / fixed multi-label / growing label-set models, arbitrary / squared / absolute loss, 10 storages, joint / "
                "product / default imputer, str/int/float/mixed names, loss_bigger_is_better, per-call update_storage and "
                "n_inner overrides), streams of 3..6 calls; all permutation sequences for d<=3 over 2 explained steps. "
                "Non-trivial: at least one explained call; distinct by hash of (config, stream).")
    chk.trusted = ["Lean 4.33.0 kernel", "axioms propext/Classical.choice/Quot.sound",
                   "hand-written model Model/Explainer.lean tied by this correspondence (and the tracker kernels by translation)",
                   "driver JSON glue; harness.q.Q; callbacks recorded as finite tables"]
    chk.assumptions = ["exact arithmetic (floats: C20)", "deterministic model; imputer faithful on the empty subset (C06)"]
    if replay:
        print(open(replay).read())
        return 1
    core.lean_stage(chk, "C01", extra_props=["E2E"])
    from harness import cover
    from harness import fingerprint
    fingerprint.direct(chk, ['ixai/explainer/sage/incremental.py', 'ixai/explainer/base.py', 'ixai/utils/tracker/multi_value.py', 'ixai/imputer/marginal_imputer.py', 'ixai/imputer/default_imputer.py'])
    _cv = cover.Cover(['ixai/explainer/sage/incremental.py', 'ixai/explainer/base.py', 'ixai/utils/tracker/multi_value.py', 'ixai/imputer/marginal_imputer.py', 'ixai/imputer/default_imputer.py'])
    _cv.__enter__()
    quick = tier == "quick"
    rigs, cfgs = [], []

    def one(cfg, nsteps, perms=None, faults=0):
        rig = _expl.run_stream(chk, cfg, 1, None)  # seed call
        if faults:
            per = 4 + cfg["d"] * 4
            rig.fail_at = {chk.rng.randrange(2, 2 + per * (nsteps - 1)): True for _ in range(faults)}
            chk.stat("streams_with_faults")
        for t in range(1, nsteps):
            kw = {}
            if chk.rng.random() < 0.15:
                kw["update_storage"] = False
            if chk.rng.random() < 0.2:
                kw["n_inner_samples"] = chk.rng.randint(1, 3)
            perm = perms[t - 1] if perms is not None and t - 1 < len(perms) else None
            rec = rig.step(perm=perm, **kw)
            if rec["error"] is None:
                f = identity_fails(rig)
                if f:
                    chk.violation("efficiency", f"IncrementalSage {_expl.cfg_desc(cfg)} after call {t + 1}: {f}",
                                  _expl.replay_payload(rig, cfg, t))
                    break
            elif rec["error"] == "fault":
                chk.stat("faults_hit")
                f = identity_fails(rig)
                if f:
                    chk.violation("efficiency-after-failure", f"IncrementalSage {_expl.cfg_desc(cfg)}: a callback raised during call {t + 1}; afterwards {f}",
                                  _expl.replay_payload(rig, cfg, t))
                    break
            else:
                chk.stat("impl_exception:" + rec["error"])
                chk.violation("exception", f"IncrementalSage {_expl.cfg_desc(cfg)} raised {rec['error']}: {rec.get('error_text')}",
                              _expl.replay_payload(rig, cfg, t))
                break
        chk.case({"config": _expl.cfg_desc(cfg), "first_x": rig.steps[0]["x"], "calls": len(rig.steps),
                  "perms": [r["perm"] for r in rig.steps[1:]]}, nontrivial=len(rig.steps) > 1)
        chk.stat(f"d={cfg['d']}")
        chk.stat("dynamic" if cfg["dynamic"] else "static")
        chk.stat(f"model:{cfg['model_kind']}")
        chk.stat(f"imputer:{cfg['imputer_kind']}")
        rigs.append(rig)
        cfgs.append(cfg)

    for ci, cfg in enumerate(_expl.gen_configs(chk, "sage", chk.count(60, 600))):
        if ci % 3 == 2:
            one(cfg, chk.rng.randint(5, 8), faults=chk.rng.randint(1, 3))   # callbacks fail, the stream is resumed
        else:
            one(cfg, chk.rng.randint(3, 6))
    # all permutation sequences for d <= 3 over two explained steps
    for d in (2, 3):
        allp = list(itertools.permutations(range(d)))
        for dyn in (True, False):
            for p1 in allp:
                for p2 in (allp if (not quick or d == 2) else allp[:2]):
                    cfg = dict(kind="sage", d=d, dynamic=dyn, alpha=Q(1, 2), n_inner=1, model_kind="scalar",
                               names_kind="str", storage_kind="geom", storage_size=2, imputer_kind="joint",
                               loss_kind="arbitrary", lbb=False)
                    one(cfg, 3, perms=[p1, p2])
    _expl.long_stream_probe(chk, "sage", ["ixai/explainer/sage/incremental.py", "ixai/explainer/base.py", "ixai/utils/tracker/multi_value.py"],
                            "IncrementalSage", identity=identity_fails)
    try:
        answers = _expl.model_answers(rigs) if core.driver_available() else None
    except Exception as ex:
        chk.tie_failure("driver", f"model driver failed: {ex}")
        answers = []
    if answers is None:
        chk.tie_failure("driver", "model driver not built")
        answers = []
    ndis = 0
    for rig, cfg, ans in zip(rigs, cfgs, answers):
        chk.stat("model_vs_impl_compared")
        diffs = _expl.compare(rig, ans, OBS)
        if diffs and ndis < 5:
            ndis += 1
            t, ob, iv, mv = diffs[0]
            chk.tie_failure("correspondence:IncrementalSage",
                            f"{_expl.cfg_desc(cfg)} call {t + 1}: {ob} impl={str(iv)[:200]} model={str(mv)[:200]}")
    _cv.__exit__(None, None, None)
    cover.gate(chk, _cv, only_functions=['IncrementalSage', 'BaseIncrementalFeatureImportance.__init__', 'BaseIncrementalFeatureImportance.importance_values', 'BaseIncrementalExplainer.__init__', '_get_mean_model_output', 'MultiValueTracker', 'MarginalImputer', 'DefaultImputer'])
    chk.exhaustive = False
    chk.extra["explanation"] = ("sage_efficiency is a Lean theorem for every prefix/callback/order/kind/alpha/d/n about Model/Explainer.lean; "
                                "the model is tied to ixai/explainer/sage/incremental.py by running both on identical recorded callbacks "
                                "in exact arithmetic; the identity is also evaluated on the real object after every call.")
    return chk.finish()
