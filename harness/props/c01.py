"""C01 — incremental SAGE values sum to the explained loss.

Stage A: Props/C01.lean (`sage_efficiency` for every stream prefix, callbacks, order, kind, alpha, d, n).
Stage B: the real IncrementalSage in exact arithmetic against the Lean model (same callback tables, same order and
         imputer outputs), and the identity itself evaluated on the real object after every call.
"""
import itertools

from harness import core, explain
from harness.q import Q, rs
from harness.props import _expl

OBS = ["importance", "marginal_loss", "model_loss", "explained_loss"]


def identity_fails(rig):
    ex = rig.ex
    total = sum(ex.importance_values.values(), Q(0))
    if total != ex.explained_loss:
        return f"sum of importance values {rs(total)} != explained loss {rs(ex.explained_loss)} " \
               f"(marginal {rs(ex.marginal_loss)} - model {rs(ex.model_loss)})"
    if ex.explained_loss != ex.marginal_loss - ex.model_loss:
        return "explained_loss != marginal_loss - model_loss"
    return None


def sparse_stream_fails(dynamic, seed, T, strategy):
    """river-style sparse dicts: besides the explained features every observation MAY carry an optional input the model reads with
    `.get(key, 0)`; stored rows are sparse in the same way. Exact arithmetic; after every call the values sum to the explained loss."""
    import random as pyrandom
    import warnings
    from harness import rng as hrng
    from ixai.explainer import IncrementalSage
    from ixai.storage import GeometricReservoirStorage
    from ixai.imputer import MarginalImputer
    r = pyrandom.Random(seed)
    names = ["a", 1, "c"]
    coef = {f: Q(r.randint(-3, 3) or 2) for f in names}

    def model(z):
        return {"output": sum((coef[f] * z[f] for f in names), Q(1, 2)) + 5 * z.get("w", Q(0)) + z[names[0]] * z.get("v", Q(1))}

    def loss(y, p):
        return (p["output"] - y) * (p["output"] - y)
    with warnings.catch_warnings():
        warnings.simplefilter("ignore")
        dr = hrng.Scripted(pyrandom.Random(seed + 1), real_fn=lambda g: g.random())
        with dr.installed():
            st = GeometricReservoirStorage(size=3, store_targets=False, constant_probability=1.0)
            kw = dict(dynamic_setting=True, smoothing_alpha=Q(1, 3)) if dynamic else dict(dynamic_setting=False)
            ex = IncrementalSage(model, loss, list(names), storage=st, imputer=MarginalImputer(model, strategy, st),
                                 n_inner_samples=r.randint(1, 2), **kw)
            for t in range(T):
                x = {f: Q(r.randint(-4, 4), r.randint(1, 3)) for f in names}
                for opt in ("w", "v"):
                    if r.random() < 0.6:
                        x[opt] = Q(r.randint(-3, 3), 2)
                y = Q(r.randint(-3, 3), 2)
                try:
                    ex.explain_one(x, y)
                except Exception as exn:
                    return f"call {t + 1} on the sparse observation {x} raised {core.err_kind(exn)}: {exn}"
                total = sum(ex.importance_values.values(), Q(0))
                if total != ex.explained_loss:
                    return (f"after call {t + 1} (observation {x}; optional inputs 'w', 'v' present in some observations only) the values sum to "
                            f"{rs(total)} but the explained loss is {rs(ex.explained_loss)}")
    return None


def wrapped_learning_model_fails(kind, dynamic, seed, T):
    """IncrementalSage with a library wrapper as model function around an online learner that is trained after every explained
    observation; discrete features, so observations repeat (also consecutively). After every call the values must sum to the
    explained loss up to rounding."""
    import random as pyrandom
    import numpy as np
    from ixai.explainer import IncrementalSage
    from ixai.utils.wrappers import RiverWrapper, SklearnWrapper
    r = pyrandom.Random(seed)
    pyrandom.seed(seed)
    np.random.seed(seed % (2 ** 31))
    names = ["a", "b", "c"]

    class Learner:
        """online linear model; predict_one returns a number, a string label (river-labels) or an array row (sklearn-like)"""
        def __init__(self):
            self.w = {n: 0.0 for n in names}
            self.b = 0.0

        def raw(self, x):
            return self.b + sum(self.w[n] * x[n] for n in names)

        def predict_one(self, x):
            v = self.raw(x)
            if kind == "river-labels":
                return "".join(list("pos" if v > 0.5 else ("mid" if v > 0.2 else "neg")))
            return v

        def predict(self, X):
            X = np.asarray(X, dtype=float)
            return np.array([self.b + sum(self.w[n] * row[i] for i, n in enumerate(names)) for row in X])

        def learn_one(self, x, y):
            err = self.raw(x) - y
            for n in names:
                self.w[n] -= 0.1 * err * x[n]
            self.b -= 0.1 * err
    m = Learner()
    if kind == "sklearn-like":
        fn = SklearnWrapper(m.predict, feature_names=names)
    else:
        fn = RiverWrapper(m.predict_one)

    def loss(y, p):
        if kind == "river-labels":
            return 1.0 - p.get("pos", 0.0) * y - p.get("neg", 0.0) * (1 - y)
        return (p["output"] - y) ** 2
    ex = IncrementalSage(fn, loss, names, n_inner_samples=2, dynamic_setting=dynamic, smoothing_alpha=0.1)
    x = {n: r.randint(0, 1) for n in names}
    for t in range(T):
        if r.random() < 0.5:       # otherwise the same observation arrives again
            x = {n: r.randint(0, 1) for n in names}
        y = float(x["a"] or x["b"])
        ex.explain_one(dict(x), y)
        m.learn_one(x, y)
        vals = ex.importance_values
        s_ = float(sum(vals.values()))
        el = float(ex.explained_loss)
        scale = max(1.0, abs(float(ex.marginal_loss)), abs(float(ex.model_loss)))
        if t >= 1 and abs(s_ - el) > 1e-9 * scale:
            return f"after call {t + 1} the values sum to {s_!r} but the explained loss is {el!r} (difference {abs(s_ - el):.3e})"
    return None


def run(tier="quick", seed=0, replay=None):
    chk = core.Check("C01", tier, seed, "proof")
    chk.rule = ("IncrementalSage configurations (static/dynamic, alpha in {1,1/2,1/3,1/1000,999/1000}, d 1..4, n_inner 1..3, "
                "scalar / fixed multi-label / growing label-set models, arbitrary / squared / absolute loss, 10 storages, joint / "
                "product / default imputer, str/int/float/mixed names, loss_bigger_is_better, per-call update_storage and "
                "n_inner overrides), streams of 3..6 calls; all permutation sequences for d<=3 over 2 explained steps; library wrappers "
                "around models trained between the calls; sparse streams (optional inputs present in some observations only). "
                "Non-trivial: at least one explained call; distinct by hash of (config, stream).")
    chk.trusted = ["Lean 4.33.0 kernel", "axioms propext/Classical.choice/Quot.sound",
                   "hand-written model Model/Explainer.lean tied by this correspondence (and the tracker kernels by translation)",
                   "driver JSON glue; harness.q.Q; callbacks recorded as finite tables"]
    chk.assumptions = ["exact arithmetic (floats: C20)", "deterministic model; imputer faithful on the empty subset (C06)"]
    if replay:
        print(open(replay).read())
        return 1
    core.lean_stage(chk, "C01", extra_props=["E2E", "E2Eb"])
    core.soft_bridge(chk)
    from harness import cover
    from harness import fingerprint
    fingerprint.direct(chk, ['ixai/explainer/sage/incremental.py', 'ixai/explainer/base.py', 'ixai/utils/tracker/multi_value.py', 'ixai/imputer/marginal_imputer.py', 'ixai/imputer/default_imputer.py'])
    _cv = cover.Cover(['ixai/explainer/sage/incremental.py', 'ixai/explainer/base.py', 'ixai/utils/tracker/multi_value.py', 'ixai/imputer/marginal_imputer.py', 'ixai/imputer/default_imputer.py'])
    _cv.__enter__()
    quick = tier == "quick"
    rigs, cfgs = [], []

    def one(cfg, nsteps, perms=None, faults=0):
        rig = _expl.run_stream(chk, cfg, 1, None)  # seed call
        if faults:
            per = 4 + cfg["d"] * 4
            rig.fail_at = {chk.rng.randrange(2, 2 + per * (nsteps - 1)): True for _ in range(faults)}
            chk.stat("streams_with_faults")
        for t in range(1, nsteps):
            kw = {}
            if chk.rng.random() < 0.15:
                kw["update_storage"] = False
            if chk.rng.random() < 0.2:
                kw["n_inner_samples"] = chk.rng.randint(1, 3)
            perm = perms[t - 1] if perms is not None and t - 1 < len(perms) else None
            rec = rig.step(perm=perm, **kw)
            if rec["error"] is None:
                f = identity_fails(rig)
                if f:
                    chk.violation("efficiency", f"IncrementalSage {_expl.cfg_desc(cfg)} after call {t + 1}: {f}",
                                  _expl.replay_payload(rig, cfg, t))
                    break
            elif rec["error"] == "fault":
                chk.stat("faults_hit")
                f = identity_fails(rig)
                if f:
                    chk.violation("efficiency-after-failure", f"IncrementalSage {_expl.cfg_desc(cfg)}: a callback raised during call {t + 1}; afterwards {f}",
                                  _expl.replay_payload(rig, cfg, t))
                    break
            else:
                chk.stat("impl_exception:" + rec["error"])
                chk.violation("exception", f"IncrementalSage {_expl.cfg_desc(cfg)} raised {rec['error']}: {rec.get('error_text')}",
                              _expl.replay_payload(rig, cfg, t))
                break
        chk.case({"config": _expl.cfg_desc(cfg), "first_x": rig.steps[0]["x"], "calls": len(rig.steps),
                  "perms": [r["perm"] for r in rig.steps[1:]]}, nontrivial=len(rig.steps) > 1)
        chk.stat(f"d={cfg['d']}")
        chk.stat("dynamic" if cfg["dynamic"] else "static")
        chk.stat(f"model:{cfg['model_kind']}")
        chk.stat(f"imputer:{cfg['imputer_kind']}")
        rigs.append(rig)
        cfgs.append(cfg)

    for ci, cfg in enumerate(_expl.gen_configs(chk, "sage", chk.count(60, 600))):
        if ci % 3 == 2:
            one(cfg, chk.rng.randint(5, 8), faults=chk.rng.randint(1, 3))   # callbacks fail, the stream is resumed
        else:
            one(cfg, chk.rng.randint(3, 6))
    # all permutation sequences for d <= 3 over two explained steps
    for d in (2, 3):
        allp = list(itertools.permutations(range(d)))
        for dyn in (True, False):
            for p1 in allp:
                for p2 in (allp if (not quick or d == 2) else allp[:2]):
                    cfg = dict(kind="sage", d=d, dynamic=dyn, alpha=Q(1, 2), n_inner=1, model_kind="scalar",
                               names_kind="str", storage_kind="geom", storage_size=2, imputer_kind="joint",
                               loss_kind="arbitrary", lbb=False)
                    one(cfg, 3, perms=[p1, p2])
    # the model function is one of the library's own wrappers around a model that keeps learning between the calls (test-then-train),
    # on a stream with immediately repeated observations; binary64, so the identity is checked to rounding
    for wi in range(chk.count(6, 40)):
        wk = ["river", "river-labels", "sklearn-like"][wi % 3]
        dyn = (wi // 3) % 2 == 0
        sd = chk.rng.randrange(10 ** 6)
        chk.case({"wrapped_learning_model": wk, "dynamic": dyn, "seed": sd}, nontrivial=True, sample=(wi == 0))
        chk.stat("wrapped_learning_model")
        try:
            f = wrapped_learning_model_fails(wk, dyn, sd, 40 if quick else 120)
        except Exception as ex:
            f = f"raised {core.err_kind(ex)}: {ex}"
        if f:
            chk.violation("efficiency-wrapped-model", f"IncrementalSage on a {wk} wrapper around a model trained between the calls "
                          f"(dynamic={dyn}, seed {sd}): {f}", {"wrapped_learning_model": wk, "dynamic": dyn, "seed": sd})
            break
    # sparse observations (optional inputs present in some observations only), exact arithmetic
    for si in range(chk.count(8, 60)):
        dyn, strat = si % 2 == 0, ["joint", "product"][(si // 2) % 2]
        sd = chk.rng.randrange(10 ** 6)
        dsc = {"sparse_stream": True, "dynamic": dyn, "strategy": strat, "seed": sd}
        chk.case(dsc, nontrivial=True, sample=(si == 0))
        chk.stat("sparse_stream_runs")
        try:
            f = sparse_stream_fails(dyn, sd, 8, strat)
        except Exception as ex:
            f = f"raised {core.err_kind(ex)}: {ex}"
        if f:
            chk.violation("efficiency-sparse", f"IncrementalSage (dynamic={dyn}, {strat} imputer, seed {sd}): {f}", dsc)
            break
    _expl.long_stream_probe(chk, "sage", ["ixai/explainer/sage/incremental.py", "ixai/explainer/base.py", "ixai/utils/tracker/multi_value.py"],
                            "IncrementalSage", identity=identity_fails)
    try:
        answers = _expl.model_answers(rigs) if core.driver_available() else None
    except Exception as ex:
        chk.tie_failure("driver", f"model driver failed: {ex}")
        answers = []
    if answers is None:
        chk.tie_failure("driver", "model driver not built")
        answers = []
    ndis = 0
    for rig, cfg, ans in zip(rigs, cfgs, answers):
        chk.stat("model_vs_impl_compared")
        diffs = _expl.compare(rig, ans, OBS)
        if diffs and ndis < 5:
            ndis += 1
            t, ob, iv, mv = diffs[0]
            chk.tie_failure("correspondence:IncrementalSage",
                            f"{_expl.cfg_desc(cfg)} call {t + 1}: {ob} impl={str(iv)[:200]} model={str(mv)[:200]}")
    _cv.__exit__(None, None, None)
    cover.gate(chk, _cv, only_functions=['IncrementalSage', 'BaseIncrementalFeatureImportance.__init__', 'BaseIncrementalFeatureImportance.importance_values', 'BaseIncrementalExplainer.__init__', '_get_mean_model_output', 'MultiValueTracker', 'MarginalImputer', 'DefaultImputer'])
    chk.exhaustive = False
    chk.extra["explanation"] = ("sage_efficiency is a Lean theorem for every prefix/callback/order/kind/alpha/d/n about Model/Explainer.lean; "
                                "the model is tied to ixai/explainer/sage/incremental.py by running both on identical recorded callbacks "
                                "in exact arithmetic; the identity is also evaluated on the real object after every call.")
    return chk.finish()
