"""Entry point:  python -m harness.main <Cxx> [--tier quick|thorough] [--replay FILE]"""
import argparse
import importlib
import os
import sys
import traceback


def main():
    ap = argparse.ArgumentParser()
    ap.add_argument("pid")
    ap.add_argument("--tier", default=os.environ.get("VERIF_TIER", "quick"))
    ap.add_argument("--replay", default=None)
    a = ap.parse_args()
    try:
        seed = int(os.environ.get("VERIF_SEED", "0"))
    except ValueError:
        seed = 0
    tier = a.tier if a.tier in ("quick", "thorough") else "quick"
    try:
        mod = importlib.import_module(f"harness.props.{a.pid.lower()}")
    except ModuleNotFoundError:
        print(f"no check for {a.pid}")
        sys.exit(2)
    try:
        code = mod.run(tier=tier, seed=seed, replay=a.replay)
    except SystemExit:
        raise
    except Exception:
        traceback.print_exc()
        print(f"[{a.pid}] infrastructure failure")
        sys.exit(2)
    sys.exit(code)


if __name__ == "__main__":
    main()
