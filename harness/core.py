"""Check runner core: stages, outcome protocol (VIOLATION / KNOWN-FINDING / no-failing-input-found), replay and
evidence files.  See DESIGN.md section 5."""
import collections
import fcntl
import hashlib
import json
import os
import random
import re
import subprocess
import sys
import time

VERIF = os.path.dirname(os.path.dirname(os.path.abspath(__file__)))
LEAN_DIR = os.path.join(VERIF, "lean")
REPO = os.environ.get("IXAI_REPO", "/repo")
ALLOWED_AXIOMS = {"propext", "Classical.choice", "Quot.sound"}
FORBIDDEN = re.compile(r"\b(sorry|admit|native_decide|bv_decide|implemented_by|unsafe)\b|^\s*axiom\s|maxHeartbeats\s+0")


def canon(obj):
    """canonical JSON-able form: dicts sorted by (type tag, repr) of key; exact numbers as 'p/q' strings"""
    from harness.q import _co
    import numpy as np
    if isinstance(obj, dict):
        items = [(canon_key(k), canon(v)) for k, v in obj.items()]
        items.sort(key=lambda kv: kv[0])
        return {k: v for k, v in items}
    if isinstance(obj, (list, tuple, collections.deque)):
        return [canon(v) for v in obj]
    if isinstance(obj, (set, frozenset)):
        return sorted((canon(v) for v in obj), key=lambda v: json.dumps(v, sort_keys=True))
    if isinstance(obj, bool) or obj is None or isinstance(obj, str):
        return obj
    if isinstance(obj, np.ndarray):
        return canon(obj.tolist())
    if isinstance(obj, np.str_):
        return str(obj)
    c = _co(obj)
    if c is not None:
        return str(c.numerator) if c.denominator == 1 else f"{c.numerator}/{c.denominator}"
    if isinstance(obj, float):
        return repr(obj)  # nan / inf
    if isinstance(obj, (np.floating,)):
        return repr(float(obj))
    return repr(obj)


def jnorm(obj):
    """normalise a driver answer to the same canonical form as `canon` (integers as strings)"""
    if isinstance(obj, bool) or obj is None or isinstance(obj, str):
        return obj
    if isinstance(obj, int):
        return str(obj)
    if isinstance(obj, list):
        return [jnorm(v) for v in obj]
    if isinstance(obj, dict):
        return {k: jnorm(v) for k, v in sorted(obj.items())}
    return obj


def canon_key(k):
    import numpy as np
    if isinstance(k, (str, np.str_)):
        return "s:" + str(k)
    if isinstance(k, bool):
        return "b:" + str(k)
    if isinstance(k, (int, np.integer)):
        return "i:" + str(int(k))
    if isinstance(k, (float, np.floating)):
        return "f:" + repr(float(k))
    if isinstance(k, tuple):
        return "t:" + ",".join(canon_key(x) for x in k)
    return "o:" + repr(k)


def err_kind(ex):
    for cls in (ZeroDivisionError, KeyError, IndexError, TypeError, ValueError, AttributeError, AssertionError,
                NotImplementedError):
        if isinstance(ex, cls):
            return cls.__name__
    return "Other:" + type(ex).__name__


class Check:
    def __init__(self, pid, tier, seed, level, replay_file=None):
        self.pid = pid
        self.tier = tier
        self.seed = seed
        self.level = level
        self.rng = random.Random(f"{pid}:{seed}")
        self.t0 = time.time()
        self.evaluations = 0
        self.hashes = set()
        self.trivial = 0
        self.samples = []
        self.stats = collections.Counter()
        self.oracle_violations = []   # property fails on the real implementation (concrete input)
        self.tie_failures = []        # proof obligation / translation / correspondence no longer checks
        self.assumptions = []
        self.trusted = []
        self.rule = ""
        self.lean = None
        self.extra = {}
        self.exhaustive = None
        self.replay_file = replay_file
        self.budget_scale = 1 if tier == "quick" else int(os.environ.get("VERIF_THOROUGH_SCALE", "12"))
        self.boost = 1   # raised by harness.fingerprint.direct when the modelled source changed (change-directed search)

    # ---- counting ---------------------------------------------------------------------------------------------
    def case(self, desc, nontrivial=True, sample=True):
        """register one explored case; `desc` is a canonical JSON-able description"""
        self.evaluations += 1
        if not nontrivial:
            self.trivial += 1
            return
        h = hashlib.sha1(json.dumps(desc, sort_keys=True, default=str).encode()).hexdigest()
        if h not in self.hashes:
            self.hashes.add(h)
            if sample and len(self.samples) < 4:
                self.samples.append(desc)

    def count(self, quick, thorough):
        """number of cases for this tier, multiplied when the modelled code changed"""
        if self.tier == "quick":
            return quick * self.boost
        # VERIF_THOROUGH_SCALE deepens the thorough tier (more histories / configurations, not longer single streams)
        return thorough * self.boost * max(1, int(os.environ.get("VERIF_THOROUGH_SCALE", "6")))

    def stat(self, key, n=1):
        self.stats[key] += n

    # ---- outcomes ---------------------------------------------------------------------------------------------
    def violation(self, key, what, replay):
        """the property fails on the real implementation for a concrete input (`replay` must reproduce it)"""
        if len(self.oracle_violations) < 50:
            self.oracle_violations.append({"key": key, "what": what, "replay": replay})

    def tie_failure(self, name, detail):
        """a theorem, the translator, or the model/implementation correspondence no longer checks"""
        if len(self.tie_failures) < 50:
            self.tie_failures.append({"name": name, "detail": detail})

    def time_left(self, budget_s):
        return budget_s - (time.time() - self.t0)

    # ---- finish -----------------------------------------------------------------------------------------------
    def known_findings(self):
        path = os.path.join(VERIF, "known_findings.txt")
        out = []
        if os.path.exists(path):
            for line in open(path):
                m = re.match(r"open:\s+property=(\S+)\s+key=(\S+)\s*(.*)", line.strip())
                if m:
                    out.append((m.group(1), m.group(2), m.group(3)))
        return out

    def finish(self):
        wall = time.time() - self.t0
        known = self.known_findings()
        lines = []
        new_violations = []
        for v in self.oracle_violations:
            hit = [k for k in known if k[0] == self.pid and k[1] == v["key"]]
            if hit:
                lines.append(f"KNOWN-FINDING: property={self.pid} {hit[0][2] or v['what']}")
            else:
                new_violations.append(v)
        exit_code = 0
        os.makedirs(os.path.join(VERIF, "replays"), exist_ok=True)
        if new_violations:
            v = new_violations[0]
            h = hashlib.sha1(json.dumps(v, sort_keys=True, default=str).encode()).hexdigest()[:12]
            path = os.path.join("replays", f"{self.pid}-{h}.json")
            with open(os.path.join(VERIF, path), "w") as fh:
                json.dump({"property": self.pid, "kind": "failing-input", "seed": self.seed, "tier": self.tier,
                           "key": v["key"], "what": v["what"], "replay": v["replay"],
                           "other_violations": [x["what"] for x in new_violations[1:10]],
                           "broken_obligations": self.tie_failures[:10]}, fh, indent=1, default=str)
            lines.append(f"VIOLATION property={self.pid} replay={path}")
            exit_code = 1
        elif self.tie_failures:
            h = hashlib.sha1(json.dumps(self.tie_failures, sort_keys=True, default=str).encode()).hexdigest()[:12]
            path = os.path.join("replays", f"{self.pid}-nofail-{h}.json")
            with open(os.path.join(VERIF, path), "w") as fh:
                json.dump({"property": self.pid, "kind": "no-failing-input-found", "seed": self.seed,
                           "tier": self.tier,
                           "no_longer_checks": self.tie_failures,
                           "searched": {"evaluations": self.evaluations, "distinct": len(self.hashes),
                                        "rule": self.rule}}, fh, indent=1, default=str)
            lines.append(f"VIOLATION property={self.pid} replay={path} no-failing-input-found")
            exit_code = 1
        self.write_evidence(wall, len(new_violations) + (1 if (self.tie_failures and not new_violations) else 0))
        for ln in lines:
            print(ln)
        status = "held" if exit_code == 0 else "VIOLATED"
        print(f"[{self.pid}] {status}: tier={self.tier} seed={self.seed} evaluations={self.evaluations} "
              f"distinct_nontrivial={len(self.hashes)} wall={wall:.1f}s "
              + (f"theorems={self.lean['discharged']}/{self.lean['obligations']}" if self.lean else ""))
        sys.stdout.flush()
        return exit_code

    def write_evidence(self, wall, nviol):
        cov = {
            "evaluations": self.evaluations,
            "distinct_nontrivial": len(self.hashes),
            "trivial_cases": self.trivial,
            "rule": self.rule,
            "samples": self.samples[:4] if self.samples else [],
            "stats": dict(self.stats),
        }
        if self.exhaustive is not None:
            cov["exhaustive"] = self.exhaustive
        if self.lean is not None:
            cov["obligations"] = self.lean["obligations"]
            cov["discharged"] = self.lean["discharged"]
            cov["checker_cmd"] = self.lean["checker_cmd"]
            cov["theorems"] = self.lean["theorems"]
            cov["generated_from"] = self.lean.get("generated", {})
            cov["lean_errors"] = self.lean.get("errors", [])[:5]
            if self.lean.get("leanchecker"):
                cov["leanchecker"] = self.lean["leanchecker"]
                cov["checker_cmd"] += "; then `lake env leanchecker` on the property module(s) (thorough tier)"
        cov["trusted_base"] = self.trusted
        cov["explanation"] = self.extra.pop("explanation", "")
        if self.level == "translation_validation":
            cov["programs"] = max(1, len(self.hashes))
            cov["disagreements_checked"] = self.evaluations
        cov.update(self.extra)
        if not cov["samples"]:
            cov["samples"] = [{"note": "no case generated"}]
        ev = {
            "property_id": self.pid,
            "tier": self.tier,
            "seed": self.seed,
            "level": self.level,
            "coverage": cov,
            "assumptions": self.assumptions,
            "wall_s": round(wall, 2),
            "violations": nviol,
        }
        os.makedirs(os.path.join(VERIF, "evidence"), exist_ok=True)
        tmp = os.path.join(VERIF, "evidence", f".{self.pid}.json.tmp")
        with open(tmp, "w") as fh:
            json.dump(ev, fh, indent=1, default=str)
        os.replace(tmp, os.path.join(VERIF, "evidence", f"{self.pid}.json"))


# ----------------------------------------------------------------------------------------------------------------
# Stage A: regenerate, build, audit
# ----------------------------------------------------------------------------------------------------------------
class LeanLock:
    def __enter__(self):
        os.makedirs(os.path.join(LEAN_DIR, ".lake"), exist_ok=True)
        self.fh = open(os.path.join(LEAN_DIR, ".lake", "verif.lock"), "w")
        fcntl.flock(self.fh, fcntl.LOCK_EX)
        return self

    def __exit__(self, *a):
        fcntl.flock(self.fh, fcntl.LOCK_UN)
        self.fh.close()


def theorem_names(pid):
    path = os.path.join(LEAN_DIR, "IxaiVerif", "Props", f"{pid}.lean")
    text = open(path).read()
    ns = re.search(r"^namespace\s+(\S+)", text, re.M).group(1)
    names = re.findall(r"^theorem\s+([A-Za-z_][A-Za-z0-9_']*)", text, re.M)
    return ns, names


def write_audit(pid):
    ns, names = theorem_names(pid)
    body = f"-- generated by harness/core.py from Props/{pid}.lean: one `#print axioms` per property theorem\n" \
           f"import IxaiVerif.Props.{pid}\n" + "".join(f"#print axioms {ns}.{n}\n" for n in names)
    path = os.path.join(LEAN_DIR, "IxaiVerif", "Audit", f"{pid}.lean")
    if not os.path.exists(path) or open(path).read() != body:
        with open(path, "w") as fh:
            fh.write(body)
    return ns, names


def scan_forbidden():
    hits = []
    for root, _, files in os.walk(os.path.join(LEAN_DIR, "IxaiVerif")):
        for f in files:
            if not f.endswith(".lean"):
                continue
            p = os.path.join(root, f)
            in_block = False
            for i, line in enumerate(open(p), 1):
                s = line
                if in_block:
                    if "-/" in s:
                        in_block = False
                        s = s.split("-/", 1)[1]
                    else:
                        continue
                if "/-" in s and "-/" not in s.split("/-", 1)[1]:
                    in_block = True
                    s = s.split("/-", 1)[0]
                s = re.sub(r"/-.*?-/", "", s)
                s = s.split("--", 1)[0]
                if FORBIDDEN.search(s):
                    hits.append(f"{os.path.relpath(p, LEAN_DIR)}:{i}: {line.strip()[:100]}")
    return hits


def lean_stage(check, pid, extra_targets=(), extra_props=()):
    """regenerate Gen/*.lean from the current source, build the property's theorems and the driver, audit axioms.
    Registers tie failures on `check`; returns True when every obligation is discharged."""
    sys.path.insert(0, os.path.join(VERIF, "tools"))
    import py2lean
    info = {"obligations": 0, "discharged": 0, "theorems": {}, "errors": [],
            "checker_cmd": f"cd lean && lake build IxaiVerif.Audit.{pid}  (Lean 4.33.0 kernel; #print axioms per theorem)"}
    check.lean = info
    ok = True
    if not os.path.exists(os.path.join(LEAN_DIR, "IxaiVerif", "Props", f"{pid}.lean")):
        check.tie_failure("props", f"Props/{pid}.lean does not exist: no theorem is checked for {pid}")
        return False
    with LeanLock():
        try:
            rep = py2lean.generate(REPO, os.path.join(LEAN_DIR, "IxaiVerif", "Gen"))
            check.py2lean_report = rep
            info["generated"] = {k: v["sha256"] for k, v in rep.items() if not v.get("error")}
        except py2lean.Unsupported as ex:
            check.tie_failure("py2lean", f"translator rejects the current source: {ex}")
            info["errors"].append(f"py2lean: {ex}")
            ns, names = theorem_names(pid)
            info["obligations"] = len(names)
            return False
        needed = gen_closure([pid] + list(extra_props))
        broken = {k: v["error"] for k, v in rep.items() if v.get("error") and k in needed}
        if broken:
            for k, err in broken.items():
                check.tie_failure("py2lean", f"translator rejects the current source of {k}: {err}")
                info["errors"].append(f"py2lean {k}: {err}")
            ns, names = theorem_names(pid)
            info["obligations"] = len(names)
            return False
        ns, names0 = write_audit(pid)
        names = [(ns, n) for n in names0]
        for ep in extra_props:
            ens, enames = write_audit(ep)
            names += [(ens, n) for n in enames]
        info["obligations"] = len(names)
        targets = [f"IxaiVerif.Audit.{pid}", "IxaiVerif.Driver.Main"] + [f"IxaiVerif.Audit.{ep}" for ep in extra_props] \
            + list(extra_targets)
        t0 = time.time()
        proc = subprocess.run(["lake", "build"] + targets, cwd=LEAN_DIR, capture_output=True, text=True)
        info["build_s"] = round(time.time() - t0, 1)
        out = proc.stdout + proc.stderr
        if proc.returncode == 0 and check.tier == "thorough" and not os.environ.get("VERIF_NO_LEANCHECKER"):
            # second opinion: the toolchain's independent re-checker replays the compiled declarations of the property module
            # and of everything of ours it imports through the kernel
            t1 = time.time()
            mods = [f"IxaiVerif.Props.{p_}" for p_ in [pid] + list(extra_props)]
            lc = subprocess.run(["lake", "env", "leanchecker"] + mods, cwd=LEAN_DIR, capture_output=True, text=True)
            info["leanchecker"] = {"modules": mods, "exit": lc.returncode, "wall_s": round(time.time() - t1, 1)}
            if lc.returncode != 0:
                leanchecker_failed = (lc.stdout + lc.stderr)[-600:]
            else:
                leanchecker_failed = None
        else:
            leanchecker_failed = None
    for m in re.finditer(r"'(\S+)' depends on axioms: \[([^\]]*)\]", out):
        full, axs = m.group(1), [a.strip() for a in m.group(2).split(",") if a.strip()]
        info["theorems"][full] = axs
    for m in re.finditer(r"'(\S+)' does not depend on any axioms", out):
        info["theorems"][m.group(1)] = []
    errors = [ln for ln in out.splitlines() if ln.startswith("error:")]
    if proc.returncode != 0:
        ok = False
        info["errors"] += errors[:20]
        broken = sorted(set(re.findall(r"error: (IxaiVerif/[A-Za-z0-9_/]+\.lean):(\d+)", out)))
        which = ", ".join(f"{f}:{l}" for f, l in broken[:8]) or "see lean_errors"
        check.tie_failure("lake build", f"proof obligations of {pid} no longer check ({which}): " + " | ".join(errors[:3]))
    for ns_, n in names:
        full = f"{ns_}.{n}"
        axs = info["theorems"].get(full)
        if axs is None:
            continue
        bad = [a for a in axs if a not in ALLOWED_AXIOMS]
        if bad:
            ok = False
            check.tie_failure(full, f"depends on inadmissible axioms {bad}")
        else:
            info["discharged"] += 1
    if proc.returncode == 0 and info["discharged"] != info["obligations"]:
        ok = False
        check.tie_failure("audit", f"only {info['discharged']} of {info['obligations']} theorems reported their axioms")
    if leanchecker_failed:
        ok = False
        check.tie_failure("leanchecker", f"independent re-check of the compiled property module failed: {leanchecker_failed}")
    hits = scan_forbidden()
    if hits:
        ok = False
        check.tie_failure("forbidden-token", "; ".join(hits[:5]))
    info["driver_ok"] = driver_available()
    return ok


def soft_stage(check, props, what):
    """ADDITIONAL (soft) ties: `props` are Props modules that prove a piece of GENERATED code equal to the hand-written model which the
    property theorems are about and which is tied to the code by the correspondence runs anyway (C11b: ring-buffer bookkeeping of
    SlidingWindowTracker; C16b: the confidence-bound expression).  When the translator rejects the current source of a generated module
    they import, or they stop building, that alone is not reported: the search budget is raised and the fact is recorded."""
    rep = getattr(check, "py2lean_report", {}) or {}
    info = check.extra.setdefault("soft_ties", {})
    all_ok = True
    for name in props:
        entry = {"what": what, "status": "checked", "theorems": {}}
        info[name] = entry
        needed = gen_closure([name])
        bad = {k: v["error"] for k, v in rep.items() if v.get("error") and k in needed}
        if bad:
            entry["status"] = "unavailable: the translator rejects the current source"
            entry["translator_errors"] = bad
        else:
            with LeanLock():
                ns, names = write_audit(name)
                proc = subprocess.run(["lake", "build", f"IxaiVerif.Audit.{name}"], cwd=LEAN_DIR, capture_output=True, text=True)
            out = proc.stdout + proc.stderr
            for m in re.finditer(r"'(\S+)' depends on axioms: \[([^\]]*)\]", out):
                entry["theorems"][m.group(1)] = [a.strip() for a in m.group(2).split(",") if a.strip()]
            for m in re.finditer(r"'(\S+)' does not depend on any axioms", out):
                entry["theorems"][m.group(1)] = []
            okc = proc.returncode == 0 and all(f"{ns}.{n}" in entry["theorems"] and
                                               all(a in ALLOWED_AXIOMS for a in entry["theorems"][f"{ns}.{n}"]) for n in names)
            if not okc:
                entry["status"] = "bridge no longer checks for the current source (the generated code differs from the hand model, or a proof broke)"
                entry["lean_errors"] = [ln for ln in out.splitlines() if ln.startswith("error:")][:5]
            elif check.tier == "thorough" and not os.environ.get("VERIF_NO_LEANCHECKER"):
                with LeanLock():
                    lc = subprocess.run(["lake", "env", "leanchecker", f"IxaiVerif.Props.{name}"], cwd=LEAN_DIR, capture_output=True, text=True)
                entry["leanchecker_exit"] = lc.returncode
                if lc.returncode != 0:
                    entry["status"] = "leanchecker rejects the compiled bridge module: " + (lc.stdout + lc.stderr)[-300:]
        if entry["status"] != "checked":
            all_ok = False
            check.boost = max(check.boost, 4)
            check.stat("soft_tie_unavailable:" + name)
    return all_ok


def soft_bridge(check, props=("GenBridge", "GenCorollaries", "GenMeanOutput")):
    """ADDITIONAL tie by statement-level translation (tools/py2lean_eff.py): `explain_one` of IncrementalPFI / IncrementalSage and the
    MarginalImputer / DefaultImputer are regenerated as `do`-blocks (Gen/IncrementalPFI.lean, Gen/IncrementalSage.lean,
    Gen/MarginalImputer.lean, Gen/DefaultImputer.lean); Props/GenBridge.lean and Props/GenImputer.lean prove the generated definitions
    EQUAL to the hand-written models the property theorems are about, and Props/GenCorollaries.lean restates C17 / C01 / C02 for the
    generated code.  Soft (see `soft_stage`): a rejected translation or a bridge that no longer checks raises the search budget and
    is recorded in the evidence; the hand-written model stays tied by the correspondence runs."""
    sys.path.insert(0, os.path.join(VERIF, "tools"))
    import py2lean_eff
    with LeanLock():
        rep = py2lean_eff.generate(REPO, os.path.join(LEAN_DIR, "IxaiVerif", "Gen"))
    merged = dict(getattr(check, "py2lean_report", {}) or {})
    merged.update(rep)
    check.py2lean_report = merged
    note = ("statement-level translator tools/py2lean_eff.py with its vocabulary and totalisations (DESIGN.md section 8) — an ADDITIONAL, soft tie: "
            "its output is proved equal to the hand-written model (see soft_ties); not needed for the claim")
    if isinstance(getattr(check, "trusted", None), list) and note not in check.trusted:
        check.trusted.append(note)
    ok = soft_stage(check, list(props), "explain_one / imputers regenerated statement by statement from the source = the hand-written model")
    check.extra["generated_explainer_bridge"] = {"status": "checked" if ok else "unavailable or broken (see soft_ties)",
                                                 "generated_from": {k: v["sha256"] for k, v in rep.items() if not v.get("error")},
                                                 "translator_errors": {k: v["error"] for k, v in rep.items() if v.get("error")}}
    return ok


def gen_closure(pids):
    """names of the generated modules (Gen/X.lean) in the transitive import closure of Props/<pid>.lean and of the driver"""
    seen, todo, gens = set(), [f"IxaiVerif.Props.{p}" for p in pids], set()
    while todo:
        m = todo.pop()
        if m in seen:
            continue
        seen.add(m)
        path = os.path.join(LEAN_DIR, *m.split(".")) + ".lean"
        if not os.path.exists(path):
            continue
        for imp in re.findall(r"^import\s+(IxaiVerif\.\S+)", open(path).read(), re.M):
            if imp.startswith("IxaiVerif.Gen."):
                gens.add(imp.split(".")[-1])
            todo.append(imp)
    return gens


def driver_available():
    return os.path.exists(os.path.join(LEAN_DIR, ".lake", "build", "lib", "lean", "IxaiVerif", "Driver", "Main.olean"))


def run_driver(requests, timeout=1200):
    """send JSON requests to the Lean model driver; returns list of JSON answers (same order)"""
    if not requests:
        return []
    data = "\n".join(json.dumps(r) for r in requests) + "\n"
    proc = subprocess.run(["lake", "env", "lean", "--run", "Driver/Main.lean"], cwd=LEAN_DIR, input=data,
                          capture_output=True, text=True, timeout=timeout)
    lines = [ln for ln in proc.stdout.splitlines() if ln.strip()]
    if proc.returncode != 0 or len(lines) != len(requests):
        raise RuntimeError(f"driver failed rc={proc.returncode} answers={len(lines)}/{len(requests)} "
                           f"stderr={proc.stderr[-800:]}")
    return [json.loads(ln) for ln in lines]


def mine_constants(rel_files):
    """numeric literals occurring in the current source of the anchored files (and neighbours): candidate
    thresholds at which a changed implementation may switch behaviour"""
    import ast
    vals = set()
    for rel in rel_files:
        p = os.path.join(REPO, rel)
        try:
            tree = ast.parse(open(p).read())
        except Exception:
            continue
        for n in ast.walk(tree):
            if isinstance(n, ast.Constant) and isinstance(n.value, (int, float)) and not isinstance(n.value, bool):
                v = n.value
                if v == v and abs(v) < 1e18:
                    vals.add(v)
    return sorted(vals)


def source_text(rel):
    return open(os.path.join(REPO, rel)).read()
