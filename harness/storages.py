"""helpers shared by the storage checks (C07, C08, C09): construction of the real classes, scripted runs, fake np"""
import contextlib
import math
from fractions import Fraction

from harness.q import Q


class FakeNp:
    """exact stand-ins for np.exp/np.log/np.floor; identical to `fakeRealOps` of the Lean driver"""

    @staticmethod
    def exp(x):
        return 1 / (1 - Q(x))

    @staticmethod
    def log(x):
        return Q(x) - 1

    @staticmethod
    def floor(x):
        return Q(math.floor(Fraction(Q(x))))

    @staticmethod
    def sqrt(x):
        return Q(x)


@contextlib.contextmanager
def fake_np_in_uniform():
    import ixai.storage.uniform_reservoir_storage as urs
    saved = urs.np
    urs.np = FakeNp
    try:
        yield
    finally:
        urs.np = saved


def make_storage(kind, size=None, targets=True, p=None):
    from ixai.storage import (BatchStorage, IntervalStorage, SequenceStorage, GeometricReservoirStorage,
                              UniformReservoirStorage)
    if kind == "batch":
        return BatchStorage(store_targets=targets)
    if kind == "interval":
        return IntervalStorage(size=size, store_targets=targets)
    if kind == "sequence":
        return SequenceStorage(store_targets=targets)
    if kind == "geom":
        return GeometricReservoirStorage(size=size, store_targets=targets, constant_probability=p)
    if kind == "uniform":
        return UniformReservoirStorage(size=size, store_targets=targets)
    raise ValueError(kind)


def contents(st):
    xs, ys = st.get_data()
    return [x["id"] for x in xs], list(ys)


def check_invariant(kind, size, targets, n, st, ylist=None):
    """C07 evaluated directly on a real storage after n tagged updates (x = {'id': i}, y = 1000 + i); returns None or text"""
    ids, ys = contents(st)
    cap = {"batch": n, "sequence": 1}.get(kind, size)
    if len(set(ids)) != len(ids):
        return f"an arrival is stored twice: ids={ids}"
    if any(not (0 <= i < n) for i in ids):
        return f"stored id not among the {n} arrivals: ids={ids}"
    if len(ids) != min(n, cap):
        return f"holds {len(ids)} observations, expected min({n},{cap})"
    if len(st) != len(ids):
        return f"len(storage)={len(st)} but {len(ids)} instances stored"
    if targets:
        if ys != [(1000 + i if ylist is None else ylist[i]) for i in ids]:
            return f"targets not aligned with instances: ids={ids} ys={ys}"
    elif ys:
        return f"targets kept although store_targets=False: {ys}"
    if kind == "batch" and ids != list(range(n)):
        return f"BatchStorage does not hold the stream in order: {ids}"
    if kind in ("interval", "sequence") and ids != list(range(max(0, n - cap), n)):
        return f"{kind} storage does not hold the last {cap} in order: {ids}"
    return None
