"""Change-directed search: fingerprints (normalised source hashes) of the functions of the hand-modelled files on the clean
tree are committed in /verif/model_source_fingerprints.json.  When a function's source differs from its fingerprint the
checks that model it spend a larger search budget and add directed inputs (long streams around numeric constants of the
changed source).  A changed fingerprint is NOT an alarm — harmless rewrites are fine — it only directs effort."""
import ast
import hashlib
import json
import os

from harness import core

PATH = os.path.join(core.VERIF, "model_source_fingerprints.json")
FILES = [
    "ixai/explainer/base.py", "ixai/explainer/pfi.py", "ixai/explainer/sage/incremental.py", "ixai/explainer/sage/batch.py",
    "ixai/explainer/sage/interval.py", "ixai/imputer/base.py", "ixai/imputer/default_imputer.py", "ixai/imputer/marginal_imputer.py",
    "ixai/imputer/tree_imputer.py", "ixai/storage/tree_storage.py", "ixai/utils/tracker/multi_value.py",
    "ixai/utils/tracker/sliding_window.py", "ixai/utils/wrappers/base.py", "ixai/utils/wrappers/sklearn.py",
    "ixai/utils/wrappers/river.py", "ixai/utils/wrappers/torch.py", "ixai/utils/validators/loss.py", "ixai/utils/validators/model.py",
    "ixai/utils/tracker/base.py", "ixai/utils/tracker/welford.py", "ixai/utils/tracker/exponential_smoothing.py",
    "ixai/storage/base.py", "ixai/storage/batch_storage.py", "ixai/storage/interval_storage.py", "ixai/storage/sequence_storage.py",
    "ixai/storage/reservoir_storage.py", "ixai/storage/geometric_reservoir_storage.py", "ixai/storage/uniform_reservoir_storage.py",
]


def function_hashes(rel):
    out = {}
    try:
        tree = ast.parse(open(os.path.join(core.REPO, rel)).read())
    except Exception:
        return {"<unparseable>": "x"}

    def visit(node, prefix):
        for ch in ast.iter_child_nodes(node):
            if isinstance(ch, (ast.FunctionDef, ast.AsyncFunctionDef, ast.ClassDef)):
                q = (prefix + "." if prefix else "") + ch.name
                if not isinstance(ch, ast.ClassDef):
                    body = list(ch.body)
                    if body and isinstance(body[0], ast.Expr) and isinstance(getattr(body[0], "value", None), ast.Constant) \
                            and isinstance(body[0].value.value, str):
                        body = body[1:]
                    text = ast.unparse(ch.args) + "\n" + "\n".join(ast.unparse(b) for b in body)
                    out[q] = hashlib.sha256(text.encode()).hexdigest()[:16]
                visit(ch, q)
    visit(tree, "")
    return out


def generate():
    data = {rel: function_hashes(rel) for rel in FILES}
    with open(PATH, "w") as fh:
        json.dump(data, fh, indent=1, sort_keys=True)
    return data


def changed(rel_files=None):
    """[(file, function)] whose normalised source differs from the committed fingerprint (also new or removed functions)"""
    if not os.path.exists(PATH):
        return []
    base = json.load(open(PATH))
    out = []
    for rel in (rel_files or FILES):
        now = function_hashes(rel)
        was = base.get(rel, {})
        for q in sorted(set(now) | set(was)):
            if now.get(q) != was.get(q):
                out.append((rel, q))
    return out


def direct(chk, rel_files):
    """raise the search budget of `chk` when modelled code changed; returns the list of changed functions"""
    ch = changed(rel_files)
    if ch:
        chk.boost = 4
        chk.extra["changed_functions"] = [f"{f}:{q}" for f, q in ch][:20]
    return ch
