"""Exact rational numbers that survive the duck-typed numeric code of iXAI.

`Q` is a `fractions.Fraction` that (a) stays a `Q` under + - * / ** and their reflected forms, (b) absorbs Python
ints, floats and NumPy scalars *exactly* (a float is a dyadic rational), so `0.0 + Q(1, 3)` or `sum([...]) / n` never
leave exact arithmetic.  Running the real implementation on `Q` values puts it in the same arithmetic (ℚ) in which the
Lean model is executed (core `Rat`) and in which the theorems are proved (any field)."""
from fractions import Fraction
import math
import numbers

try:
    import numpy as _np
except Exception:  # pragma: no cover
    _np = None


def _co(x):
    if isinstance(x, Fraction):
        return x
    if isinstance(x, bool):
        return Fraction(int(x))
    if isinstance(x, int):
        return Fraction(x)
    if isinstance(x, float):
        if math.isnan(x) or math.isinf(x):
            return None
        return Fraction(x)
    if _np is not None:
        if isinstance(x, _np.integer):
            return Fraction(int(x))
        if isinstance(x, _np.floating):
            f = float(x)
            if math.isnan(f) or math.isinf(f):
                return None
            return Fraction(f)
        if isinstance(x, _np.ndarray) and x.ndim == 0:
            return _co(x.item())
    return None


class Q(Fraction):
    __slots__ = ()

    def __new__(cls, a=0, b=None):
        if b is None:
            if isinstance(a, Q):
                return a
            c = _co(a)
            if c is None:
                c = Fraction(a)
            self = super().__new__(cls, c.numerator, c.denominator)
        else:
            self = super().__new__(cls, a, b)
        return self

    @staticmethod
    def _wrap(fr):
        return Fraction.__new__(Q, fr.numerator, fr.denominator)

    def _bin(self, other, op, reflected=False):
        o = _co(other)
        if o is None:
            return NotImplemented
        a, b = (o, Fraction(self)) if reflected else (Fraction(self), o)
        return Q._wrap(op(a, b))

    def __add__(self, o): return self._bin(o, Fraction.__add__)
    def __radd__(self, o): return self._bin(o, Fraction.__add__, True)
    def __sub__(self, o): return self._bin(o, Fraction.__sub__)
    def __rsub__(self, o): return self._bin(o, Fraction.__sub__, True)
    def __mul__(self, o): return self._bin(o, Fraction.__mul__)
    def __rmul__(self, o): return self._bin(o, Fraction.__mul__, True)

    def __truediv__(self, o):
        c = _co(o)
        if c is None:
            return NotImplemented
        if c == 0:
            raise ZeroDivisionError("Q division by zero")
        return Q._wrap(Fraction(self) / c)

    def __rtruediv__(self, o):
        c = _co(o)
        if c is None:
            return NotImplemented
        if self == 0:
            raise ZeroDivisionError("Q division by zero")
        return Q._wrap(c / Fraction(self))

    def __pow__(self, e):
        if isinstance(e, (int,)) or (_np is not None and isinstance(e, _np.integer)):
            return Q._wrap(Fraction(self) ** int(e))
        if isinstance(e, Fraction) and e.denominator == 1:
            return Q._wrap(Fraction(self) ** int(e))
        if isinstance(e, float) and e == int(e):
            return Q._wrap(Fraction(self) ** int(e))
        if isinstance(e, float) and e == 0.5:
            r = Fraction(self)
            # exact square root when it exists, else a float (only `std` uses this)
            if r >= 0:
                n, d = math.isqrt(r.numerator), math.isqrt(r.denominator)
                if n * n == r.numerator and d * d == r.denominator:
                    return Q._wrap(Fraction(n, d))
            return float(self) ** 0.5
        return float(self) ** e

    def __rpow__(self, b):
        c = _co(b)
        if c is not None and self.denominator == 1:
            return Q._wrap(c ** int(self))
        return float(b) ** float(self)

    def __neg__(self): return Q._wrap(-Fraction(self))
    def __pos__(self): return self
    def __abs__(self): return Q._wrap(abs(Fraction(self)))

    def __repr__(self):
        return f"Q({self.numerator}/{self.denominator})" if self.denominator != 1 else f"Q({self.numerator})"

    __str__ = __repr__

    # hashing/equality inherited from Fraction (consistent with int/float)
    def __hash__(self):
        return Fraction.__hash__(self)

    def __eq__(self, o):
        return Fraction.__eq__(self, o)


def rs(x):
    """canonical protocol string of an exact number"""
    c = _co(x)
    if c is None:
        raise ValueError(f"not an exact number: {x!r}")
    return str(c.numerator) if c.denominator == 1 else f"{c.numerator}/{c.denominator}"


def parse(s):
    return Q(Fraction(s))


def is_exact(x):
    return _co(x) is not None
