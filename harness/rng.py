"""Control of the library's entropy sources from outside /repo.

iXAI only uses the module-level functions of `random` and `numpy.random`, looked up on the module at call time, so
replacing those attributes scripts / records every draw.  `Scripted` answers draws from a policy and logs
(kind, requested range, answer); `Recorded` lets the real (seeded) generators answer and logs the same."""
import contextlib
import random as _random

import numpy as _np

_NAMES_RANDOM = ["random", "randrange", "randint", "choice", "choices", "shuffle", "sample", "uniform"]
_NAMES_NP = ["permutation", "shuffle", "randint", "choice", "random", "rand", "normal", "random_sample"]


class Draws:
    """base: log + install/uninstall"""

    def __init__(self):
        self.log = []

    # hooks to override -----------------------------------------------------------------------------------------
    def real(self):
        raise NotImplementedError

    def index(self, n):
        raise NotImplementedError

    def perm(self, n):
        raise NotImplementedError

    def weighted(self, population, weights, k):
        idx = self.index(len(population))
        return [population[idx] for _ in range(k)]

    def normal(self, loc, scale):
        return loc

    # shims -----------------------------------------------------------------------------------------------------
    def _random(self):
        v = self.real()
        self.log.append(("real", None, v))
        return v

    def _randrange(self, start, stop=None, step=1):
        if stop is None:
            lo, n = 0, start
        else:
            lo, n = start, stop - start
        if n <= 0:
            raise ValueError("empty range for randrange()")
        v = self.index(n)
        self.log.append(("index", n, v))
        return lo + v

    def _randint(self, a, b):
        return self._randrange(a, b + 1)

    def _choice(self, seq):
        return seq[self._randrange(len(seq))]

    def _choices(self, population, weights=None, *, cum_weights=None, k=1):
        out = self.weighted(list(population), weights, k)
        self.log.append(("choices", len(population), None))
        return out

    def _shuffle(self, x):
        p = self._permutation(len(x))
        x[:] = [x[i] for i in p]

    def _sample(self, population, k):
        p = self._permutation(len(population))
        return [population[i] for i in p[:k]]

    def _uniform(self, a, b):
        return a + (b - a) * self._random()

    def _permutation(self, x):
        if isinstance(x, (int, _np.integer)):
            n = int(x)
            p = list(self.perm(n))
            self.log.append(("perm", n, tuple(p)))
            return _np.array(p, dtype=int)
        arr = _np.asarray(x)
        n = len(arr)
        p = list(self.perm(n))
        self.log.append(("perm", n, tuple(p)))
        return arr[p]

    def _np_shuffle(self, x):
        p = list(self.perm(len(x)))
        self.log.append(("perm", len(x), tuple(p)))
        x[:] = [x[i] for i in p]

    def _np_randint(self, low, high=None, size=None):
        if high is None:
            low, high = 0, low
        if size is not None:
            raise NotImplementedError("np.random.randint with size")
        return self._randrange(low, high)

    def _np_choice(self, a, size=None, replace=True, p=None):
        if size is not None or p is not None:
            raise NotImplementedError("np.random.choice with size/p")
        if isinstance(a, (int, _np.integer)):
            return self._randrange(int(a))
        return a[self._randrange(len(a))]

    def _np_normal(self, loc=0.0, scale=1.0, size=None):
        v = self.normal(loc, scale)
        self.log.append(("normal", None, v))
        if size is not None:
            return _np.full(size, v)
        return v

    @contextlib.contextmanager
    def installed(self):
        saved_r = {n: getattr(_random, n) for n in _NAMES_RANDOM}
        saved_n = {n: getattr(_np.random, n) for n in _NAMES_NP}
        _random.random = self._random
        _random.randrange = self._randrange
        _random.randint = self._randint
        _random.choice = self._choice
        _random.choices = self._choices
        _random.shuffle = self._shuffle
        _random.sample = self._sample
        _random.uniform = self._uniform
        _np.random.permutation = self._permutation
        _np.random.shuffle = self._np_shuffle
        _np.random.randint = self._np_randint
        _np.random.choice = self._np_choice
        _np.random.random = self._random
        _np.random.random_sample = self._random
        _np.random.rand = lambda *a: self._random()
        _np.random.normal = self._np_normal
        try:
            yield self
        finally:
            for n, f in saved_r.items():
                setattr(_random, n, f)
            for n, f in saved_n.items():
                setattr(_np.random, n, f)


class Scripted(Draws):
    """draws answered by a private generator (or by explicit queues), deterministic in the check's seed"""

    def __init__(self, rng, reals=None, idxs=None, perms=None, real_fn=None):
        super().__init__()
        self.rng = rng
        self.reals = list(reals) if reals is not None else None
        self.idxs = list(idxs) if idxs is not None else None
        self.perms = list(perms) if perms is not None else None
        self.real_fn = real_fn

    def real(self):
        if self.reals is not None:
            if not self.reals:
                raise RuntimeError("script exhausted: reals")
            return self.reals.pop(0)
        if self.real_fn is not None:
            return self.real_fn(self.rng)
        return self.rng.random()

    def index(self, n):
        if self.idxs is not None:
            if not self.idxs:
                raise RuntimeError("script exhausted: idxs")
            v = self.idxs.pop(0)
            return v % n
        return self.rng.randrange(n)

    def perm(self, n):
        if self.perms is not None:
            if not self.perms:
                raise RuntimeError("script exhausted: perms")
            p = self.perms.pop(0)
            assert sorted(p) == list(range(n)), (p, n)
            return p
        p = list(range(n))
        self.rng.shuffle(p)
        return p


class Recorded(Draws):
    """the real global generators answer (after the caller seeded them); every draw is logged"""

    def __init__(self):
        super().__init__()
        self._r = {n: getattr(_random, n) for n in _NAMES_RANDOM}
        self._n = {n: getattr(_np.random, n) for n in _NAMES_NP}

    def real(self):
        return self._r["random"]()

    def index(self, n):
        return self._r["randrange"](n)

    def perm(self, n):
        return [int(i) for i in self._n["permutation"](n)]

    def weighted(self, population, weights, k):
        return self._r["choices"](population, weights=weights, k=k)

    def normal(self, loc, scale):
        return self._n["normal"](loc, scale)


class Enumerator(Draws):
    """systematic enumeration of every outcome of the discrete draws of a scenario (depth-first, odometer over the
    ranges the code actually requests).  Real-valued draws are answered from `real_choices` (list of (value, weight))."""

    def __init__(self, prefix, real_choices=None):
        super().__init__()
        self.prefix = list(prefix)
        self.pos = 0
        self.trace = []     # (kind, range) per draw
        self.choice = []    # chosen option per draw
        self.weight = 1
        self.real_choices = real_choices

    def _pick(self, kind, n):
        from fractions import Fraction
        c = self.prefix[self.pos] if self.pos < len(self.prefix) else 0
        self.pos += 1
        self.trace.append((kind, n))
        self.choice.append(c)
        return c

    def index(self, n):
        from fractions import Fraction
        c = self._pick("index", n)
        self.weight = self.weight * Fraction(1, n)
        return c

    def perm(self, n):
        import itertools
        import math
        from fractions import Fraction
        nf = math.factorial(n)
        c = self._pick("perm", nf)
        self.weight = self.weight * Fraction(1, nf)
        # c-th permutation in lexicographic order
        items = list(range(n))
        out = []
        k = c
        for i in range(n, 0, -1):
            f = math.factorial(i - 1)
            out.append(items.pop(k // f))
            k %= f
        return out

    def real(self):
        from fractions import Fraction
        if not self.real_choices:
            raise RuntimeError("real draw in an enumerated scenario without real_choices")
        c = self._pick("real", len(self.real_choices))
        v, w = self.real_choices[c]
        self.weight = self.weight * w
        return v


def enumerate_outcomes(scenario, real_choices=None, limit=200000):
    """scenario(draws) -> value, run from scratch for every outcome; yields (weight, value, choices)"""
    prefix = []
    count = 0
    while True:
        d = Enumerator(prefix, real_choices)
        with d.installed():
            value = scenario(d)
        yield d.weight, value, list(d.choice)
        count += 1
        if count > limit:
            raise RuntimeError("enumeration limit exceeded")
        # advance the odometer
        ch = list(d.choice)
        i = len(ch) - 1
        while i >= 0 and ch[i] + 1 >= d.trace[i][1]:
            i -= 1
        if i < 0:
            return
        prefix = ch[:i] + [ch[i] + 1]
